#!/bin/bash
# Compiles and runs one Rust demonstration program against the Rust core of a scratch worktree.
# usage: rustdemo.sh <worktree> <demo.rs>
# A private copy of the shadow manifests is made next to the worktree (<worktree>.rustdemo) so that the
# symlink shadow-core/src points at <worktree>/sc62015/core/src; build output stays there (remove it with the worktree).
set -e
WT="$(cd "$1" && pwd)"
DEMO="$(readlink -f "$2")"
SRC=/verif/rust
D="$WT.rustdemo"
mkdir -p "$D/demo/src" "$D/.cargo"
if [ ! -e "$D/vendor" ]; then ln -s "$SRC/vendor" "$D/vendor"; fi
if [ ! -e "$D/zipshim" ]; then cp -r "$SRC/zipshim" "$D/zipshim"; fi
mkdir -p "$D/shadow-core"
cp "$SRC/shadow-core/Cargo.toml" "$D/shadow-core/Cargo.toml"
ln -sfn "$WT/sc62015/core/src" "$D/shadow-core/src"
cat > "$D/.cargo/config.toml" <<EOF
[source.crates-io]
replace-with = "vendored"
[source.vendored]
directory = "$D/vendor"
[net]
offline = true
EOF
cat > "$D/demo/Cargo.toml" <<EOF
[package]
name = "demo"
version = "0.1.0"
edition = "2021"
[[bin]]
name = "demo"
path = "src/main.rs"
[dependencies]
sc62015-core = { path = "../shadow-core" }
serde = { version = "1.0", features = ["derive"] }
serde_json = "1.0"
[profile.release]
opt-level = 1
debug = false
panic = "unwind"
EOF
cp "$DEMO" "$D/demo/src/main.rs"
cp "$SRC/harness/Cargo.lock" "$D/demo/Cargo.lock" 2>/dev/null || true
cd "$D/demo"
export CARGO_HOME="$D/cargo-home"
mkdir -p "$CARGO_HOME"
export CARGO_TARGET_DIR="$D/target"
export CARGO_NET_OFFLINE=true
if ! cargo build --release --offline -q >"$D/build.log" 2>&1; then
  grep -n "^error" -A12 "$D/build.log" | head -60
  echo "RUST-BUILD-FAILED (log $D/build.log)"
  exit 3
fi
exec "$D/target/release/demo"
