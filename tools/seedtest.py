#!/venv/bin/python
"""Confirms and evaluates seeded changes delivered by an independent agent.

usage: tools/seedtest.py <ID> [--tier quick|thorough] [--checks C01,C02] [--keep-worktree]
For every change in /tmp/seed_<ID>_out/meta.json:
  1. in the scratch worktree /tmp/seed_<ID>: demo passes without the patch, fails with it (confirmation);
  2. pinned suite on the patched worktree;
  3. patch applied to /repo (git apply), `./check <ID>` (and any extra checks) run, patch undone (git checkout -- .);
  4. results stored under /verif/seeded/<ID>-<n>/ (patch.diff, demo, meta.json).
"""
import json, os, shutil, subprocess, sys, time

ROOT = "/verif"


def sh(cmd, cwd=None, timeout=3600):
    p = subprocess.run(cmd, shell=True, cwd=cwd, capture_output=True, text=True, timeout=timeout)
    return p.returncode, (p.stdout + p.stderr)


def main():
    pid = sys.argv[1]
    tier = "quick"
    extra = []
    if "--tier" in sys.argv:
        tier = sys.argv[sys.argv.index("--tier") + 1]
    if "--checks" in sys.argv:
        extra = sys.argv[sys.argv.index("--checks") + 1].split(",")
    rnd = int(sys.argv[sys.argv.index("--round") + 1]) if "--round" in sys.argv else 1
    out = f"/tmp/seed_{pid}_out" + ("" if rnd == 1 else str(rnd))
    wt = f"/tmp/seed_{pid}"
    meta = json.load(open(f"{out}/meta.json"))
    assert "--confirm-only" in sys.argv or sh("git status --porcelain", cwd="/repo")[1].strip() == "", "/repo is dirty"
    for n, ch in enumerate(meta["changes"], 1):
        name = f"{pid}-{n + 2 * (rnd - 1)}"
        dst = f"{ROOT}/seeded/{name}"
        os.makedirs(dst, exist_ok=True)
        patch = f"{out}/{ch['patch']}"
        demo = f"{out}/{ch['demo']}"
        shutil.copy(patch, f"{dst}/patch.diff")
        shutil.copy(demo, f"{dst}/{os.path.basename(demo)}")
        res = {"property": pid, "author": "independent sub-agent given only the property text", "summary": ch.get("summary"),
               "breaks": ch.get("breaks"), "files": ch.get("files"), "demo": os.path.basename(demo), "demo_cmd": ch.get("demo_cmd")}
        recheck = "--recheck" in sys.argv and os.path.exists(f"{dst}/meta.json")
        if recheck:
            old = json.load(open(f"{dst}/meta.json"))
            for k in ("confirmed", "demo_exit_without_patch", "demo_exit_with_patch", "demo_output_with_patch", "suite_with_patch"):
                if k in old:
                    res[k] = old[k]
        sh("git checkout -- . && git clean -fdq", cwd=wt)
        cmd = ch.get("demo_cmd") or f"cd {wt} && /venv/bin/python {demo}"
        rc0, _ = (0, "") if recheck else sh(cmd, cwd=wt)
        rca, o = (0, "") if recheck else sh(f"git apply {patch}", cwd=wt)
        if recheck:
            pass
        elif rca:
            res["confirmed"] = f"patch does not apply to the scratch worktree: {o[:200]}"
        else:
            rc1, o1 = sh(cmd, cwd=wt)
            res["demo_exit_without_patch"] = rc0
            res["demo_exit_with_patch"] = rc1
            res["demo_output_with_patch"] = o1[-400:]
            rcs, os_ = sh(f"{ROOT}/tools/baseline.sh {wt}")
            res["suite_with_patch"] = os_.strip().splitlines()[0] if os_.strip() else f"rc={rcs}"
            res["confirmed"] = bool(rc0 == 0 and rc1 != 0 and rcs == 0)
        sh("git checkout -- . && git clean -fdq", cwd=wt)
        if "--confirm-only" in sys.argv:
            if os.path.exists(f"{dst}/meta.json"):
                res["checks"] = json.load(open(f"{dst}/meta.json")).get("checks", {})
            json.dump(res, open(f"{dst}/meta.json", "w"), indent=1)
            print(name, "confirmed=", res.get("confirmed"), "|", (ch.get("summary") or "")[:110])
            continue
        # evaluate the checks on /repo
        rca, o = sh(f"git apply {patch}", cwd="/repo")
        res["checks"] = {}
        if os.path.exists(f"{dst}/meta.json"):
            try:
                res["checks"] = {k: v for k, v in json.load(open(f"{dst}/meta.json")).get("checks", {}).items() if "@" in k}
            except Exception:
                pass
        if rca:
            res["checks"]["error"] = f"patch does not apply to /repo: {o[:200]}"
        else:
            try:
                for cid in [pid] + [c for c in extra if c != pid]:
                    t0 = time.time()
                    rc, o = sh(f"./check {cid} --tier {tier}", cwd=ROOT, timeout=7200)
                    viol = [l for l in o.splitlines() if l.startswith("VIOLATION")]
                    first = ""
                    for l in o.splitlines():
                        if "NEW " in l or l.startswith("  new:") or "signature" in l and "/" in l:
                            first = l.strip()[:300]
                            break
                    res["checks"][f"{cid}@{tier}"] = {"tier": tier, "exit": rc, "violation_lines": len(viol), "seconds": round(time.time() - t0, 1),
                                          "detected": bool(rc == 1 and viol), "first": first}
            finally:
                sh("git checkout -- .", cwd="/repo")
        assert sh("git status --porcelain", cwd="/repo")[1].strip() == "", "/repo not restored"
        json.dump(res, open(f"{dst}/meta.json", "w"), indent=1)
        print(name, "confirmed=", res.get("confirmed"), {k: (v.get("detected"), v.get("violation_lines")) if isinstance(v, dict) else v for k, v in res["checks"].items() if k.endswith("@" + tier)},
              "|", (ch.get("summary") or "")[:110])


if __name__ == "__main__":
    main()
