#!/bin/bash
# Runs the pinned suite on a tree (default /repo) and reports stable_pass tests that did not pass.
TREE="${1:-/repo}"
OUT="$(mktemp /verif/.build/junit.XXXXXX.xml)"
cd "$TREE" && /venv/bin/python -m pytest -q -p no:cacheprovider --timeout=900 --continue-on-collection-errors --junitxml="$OUT" >/dev/null 2>&1
/venv/bin/python - "$OUT" <<'PY'
import json,sys,xml.etree.ElementTree as ET
base=json.load(open('/root/.vp/BASELINE.json'))
want=set(base['stable_pass'])
ok=set()
for tc in ET.parse(sys.argv[1]).getroot().iter('testcase'):
    if not any(c.tag in('failure','error','skipped') for c in tc):
        ok.add(f"{tc.get('classname')}::{tc.get('name')}")
missing=sorted(want-ok)
print(f"baseline: {len(want&ok)}/{len(want)} stable tests pass; missing {len(missing)}")
for m in missing[:20]: print("  MISSING",m)
sys.exit(1 if missing else 0)
PY
rc=$?
rm -f "$OUT"
exit $rc
