#!/venv/bin/python
"""Re-runs checks against seeded changes already stored under /verif/seeded/<name>/ (patch.diff), without needing the
author's scratch directories: apply to /repo, run `./check <ID> --tier T` for the listed checks, undo, update meta.json.

usage: tools/seedrecheck.py <name>[:C01,C02] ... [--tier quick]
"""
import json, subprocess, sys, time

ROOT = "/verif"


def sh(cmd, cwd=None, timeout=7200):
    p = subprocess.run(cmd, shell=True, cwd=cwd, capture_output=True, text=True, timeout=timeout)
    return p.returncode, p.stdout + p.stderr


def main():
    tier = sys.argv[sys.argv.index("--tier") + 1] if "--tier" in sys.argv else "quick"
    names = [a for a in sys.argv[1:] if not a.startswith("--") and a != tier]
    assert sh("git status --porcelain", cwd="/repo")[1].strip() == "", "/repo is dirty"
    for item in names:
        name, _, cl = item.partition(":")
        checks = cl.split(",") if cl else [name.split("-")[0]]
        dst = f"{ROOT}/seeded/{name}"
        meta = json.load(open(f"{dst}/meta.json"))
        rc, o = sh(f"git apply {dst}/patch.diff", cwd="/repo")
        if rc:
            print(name, "patch does not apply:", o[:200])
            continue
        try:
            for cid in checks:
                t0 = time.time()
                rc, o = sh(f"./check {cid} --tier {tier}", cwd=ROOT)
                viol = [l for l in o.splitlines() if l.startswith("VIOLATION")]
                first = next((l.strip()[:300] for l in o.splitlines() if "signature" in l and "/" in l), "")
                meta.setdefault("checks", {})[f"{cid}@{tier}"] = {"tier": tier, "exit": rc, "violation_lines": len(viol), "seconds": round(time.time() - t0, 1),
                                                                 "detected": bool(rc == 1 and viol), "first": first}
                print(name, cid, "exit", rc, "violations", len(viol), "|", first[:160], flush=True)
        finally:
            sh("git checkout -- .", cwd="/repo")
        assert sh("git status --porcelain", cwd="/repo")[1].strip() == "", "/repo not restored"
        json.dump(meta, open(f"{dst}/meta.json", "w"), indent=1)


if __name__ == "__main__":
    main()
