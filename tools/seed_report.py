#!/venv/bin/python
"""Writes /verif/seeded/REPORT.md from the per-change meta.json files."""
import glob, json, os

rows = []
for f in sorted(glob.glob("/verif/seeded/*/meta.json")):
    m = json.load(open(f))
    name = os.path.basename(os.path.dirname(f))
    ch = m.get("checks", {})
    def res(tier):
        hits = [k for k, v in ch.items() if k.endswith("@" + tier) and isinstance(v, dict) and v.get("detected")]
        ran = [k for k in ch if k.endswith("@" + tier)]
        return ("detected by " + ",".join(h.split("@")[0] for h in hits)) if hits else ("MISSED" if ran else "-")
    rows.append((name, m.get("confirmed"), res("quick"), res("thorough"), (m.get("summary") or "").replace("|", "/")[:230], m.get("history", "")))
with open("/verif/seeded/REPORT.md", "w") as fh:
    fh.write("# Seeded property-breaking changes (written by independent agents that saw only the property text)\n\n")
    fh.write("Each change compiles, passes the pinned 412-test suite and comes with its author's demonstration (fails with the change, passes without);\n")
    fh.write("`confirmed` = re-checked by tools/seedtest.py in a scratch worktree. Results are for the check of the same property.\n\n")
    fh.write("| change | confirmed | quick tier | thorough tier | what was changed |\n|---|---|---|---|---|\n")
    for r in rows:
        fh.write(f"| {r[0]} | {r[1]} | {r[2]} | {r[3]} | {r[4]} |\n")
    d = sum(1 for r in rows if r[2].startswith("detected"))
    own = 0
    for f2 in sorted(glob.glob("/verif/seeded/*/meta.json")):
        m2 = json.load(open(f2))
        pid = m2["property"]
        own += bool(m2.get("checks", {}).get(f"{pid}@quick", {}).get("detected"))
    fh.write(f"\nquick tier: {own}/{len(rows)} detected by the check of the property the change was written for; {d}/{len(rows)} by that check or the sibling check named in the row.\n")
print(open("/verif/seeded/REPORT.md").read()[-300:])
