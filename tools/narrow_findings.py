#!/venv/bin/python
"""Rebuilds the signature lists of the open known findings from what the checks actually observe on the current
(unchanged) tree: for every finding, `signatures` becomes the exact list of observed violation signatures that fall
inside the finding's `scope` patterns (the root-cause description written by hand).  Run by hand after a check's
signature scheme or coverage changes; never run by a check.

usage: tools/narrow_findings.py [--ids C03,C04] [--quick-seeds 0,1,2,3,4,5] [--thorough-seeds 0,1] [--apply]
"""
import fnmatch, json, os, subprocess, sys, time

ROOT = "/verif"


def arg(name, default):
    return sys.argv[sys.argv.index(name) + 1] if name in sys.argv else default


def main():
    kf = json.load(open(f"{ROOT}/known_findings.json"))
    open_f = [f for f in kf["findings"] if f.get("status", "open") == "open"]
    ids = sorted({f["property"] for f in open_f})
    if "--ids" in sys.argv:
        ids = arg("--ids", "").split(",")
    qseeds = [int(x) for x in arg("--quick-seeds", "0,1,2,3,4,5").split(",") if x != ""]
    tseeds = [int(x) for x in arg("--thorough-seeds", "0,1").split(",") if x != ""]
    os.makedirs(f"{ROOT}/.build/sigs", exist_ok=True)
    observed = {}
    for pid in ids:
        sigs = {}
        for tier, seeds in (("thorough", tseeds), ("quick", qseeds)):
            for seed in seeds:
                out = f"{ROOT}/.build/sigs/{pid}-{tier}-{seed}.json"
                t0 = time.time()
                if "--reuse" in sys.argv and os.path.exists(out):
                    d = json.load(open(out))
                    for k, v in d.items():
                        sigs.setdefault(k, v.get("what", ""))
                    print(f"{pid} {tier} seed={seed}: reused {len(d)} signatures", flush=True)
                    continue
                env = dict(os.environ, VERIF_SEED=str(seed), VERIF_DUMP_SIGS=out)
                p = subprocess.run(["./check", pid, "--tier", tier, "--no-confirm"], cwd=ROOT, env=env, capture_output=True, text=True)
                d = json.load(open(out))
                for k, v in d.items():
                    sigs.setdefault(k, v.get("what", ""))
                print(f"{pid} {tier} seed={seed}: rc={p.returncode} {len(d)} signatures, {time.time() - t0:.0f}s", flush=True)
        observed[pid] = sigs
    json.dump(observed, open(f"{ROOT}/.build/sigs/observed.json", "w"), indent=1)
    unmatched = {}
    for f in kf["findings"]:
        if f["property"] not in observed or f.get("status", "open") != "open":
            continue
        scope = f.get("scope") or f["signatures"]
        exact = sorted(s for s in observed[f["property"]] if any(fnmatch.fnmatchcase(s, p) for p in scope))
        f["scope"] = scope
        if exact:
            f["signatures"] = exact
        print(f"{f['id']}: {len(scope)} scope patterns -> {len(exact)} exact signatures")
    for pid, sigs in observed.items():
        pats = [p for f in kf["findings"] if f["property"] == pid and f.get("status", "open") == "open" for p in f["signatures"]]
        rest = [s for s in sigs if s not in pats]
        if rest:
            unmatched[pid] = rest
            print(f"!! {pid}: {len(rest)} observed signatures belong to no open finding, e.g. {rest[:3]}")
    if "--apply" in sys.argv and not unmatched:
        json.dump(kf, open(f"{ROOT}/known_findings.json", "w"), indent=1)
        print("known_findings.json rewritten")
    elif "--apply" in sys.argv:
        print("not applied: unmatched signatures present")


if __name__ == "__main__":
    main()
