"""Shared driver for C03/C04: run one instruction on the Python core with an ordered access log and on the
reference interpreter (spec/isa.py) fed with the operands parsed from the *rendered text*."""
from __future__ import annotations

from typing import Any, Dict, List, Optional, Set, Tuple

from . import drv, pycpu
from .rustbridge import fill_byte
from .spec import isa
from .spec.operands import parse_operands, ParseError, IMEM_BASE

CODE = 0x1000
CODE_WINDOW = 32


class Case:
    __slots__ = ("data", "addr", "regs", "mem", "fill")

    def __init__(self, data: bytes, regs: Dict[str, int], mem: Dict[int, int], fill: int, addr: int = CODE) -> None:
        self.data, self.addr, self.regs, self.mem, self.fill = data, addr, regs, mem, fill

    def witness(self) -> Dict[str, Any]:
        return {"bytes": self.data.hex(), "addr": self.addr, "regs": self.regs, "mem": {str(k): v for k, v in self.mem.items()},
                "fill": self.fill}

    @staticmethod
    def from_witness(w) -> "Case":
        return Case(bytes.fromhex(w["bytes"]), dict(w["regs"]), {int(k): v for k, v in w["mem"].items()}, w["fill"], w["addr"])


class Outcome:
    def __init__(self) -> None:
        self.ins = None
        self.text = ""
        self.mn = ""
        self.skip: Optional[str] = None
        self.py: Dict[str, Any] = {}
        self.ref: Optional[isa.RefState] = None
        self.ref_alt: Optional[isa.RefState] = None
        self.original: Dict[int, int] = {}


def run_case(c: Case, large_count: bool = False) -> Outcome:
    o = Outcome()
    ins, err = drv.py_decode(c.data, c.addr)
    if ins is None:
        o.skip = f"not decodable ({err})"
        return o
    o.ins = ins
    name = ins.name()
    if name.startswith("PRE") or name.startswith("???"):
        o.skip = "not an executable instruction"
        return o
    toks = ins.render()
    o.text = drv.asm_str(toks)
    try:
        mn, ops = parse_operands(toks)
    except ParseError as exc:
        o.skip = f"unparsed text: {exc}"
        return o
    o.mn = mn
    o.ops = ops  # type: ignore[attr-defined]
    length = ins.length()
    mem = dict(c.mem)
    for i, b in enumerate(c.data[:length]):
        mem[(c.addr + i) & 0xFFFFFF] = b
    regs = dict(c.regs)
    regs["PC"] = c.addr

    def read_mem(a: int) -> int:
        v = mem.get(a & 0xFFFFFF)
        return v if v is not None else fill_byte(a & 0xFFFFFF, c.fill)

    def mkref(cin: Optional[int] = None) -> Optional[isa.RefState]:
        f = regs.get("F", 0)
        st = isa.RefState(regs={"BA": regs.get("BA", 0), "I": regs.get("I", 0), "X": regs.get("X", 0), "Y": regs.get("Y", 0),
                                "U": regs.get("U", 0), "S": regs.get("S", 0), "PC": c.addr, "C": f & 1 if cin is None else cin,
                                "Z": (f >> 1) & 1, "Fhi": f & 0xFC}, read_mem=read_mem)
        isa.execute(mn, ops, st, c.addr, length)
        return st

    try:
        isa.LENIENT[0], isa.WRAPPED[0] = bool(large_count), False
        try:
            o.ref = mkref()
        finally:
            isa.LENIENT[0] = False
        o.wrapped = isa.WRAPPED[0]  # type: ignore[attr-defined]
        if "DADL-carry-in" in o.ref.undef:
            o.ref_alt = mkref(0)
        ptrs = {IMEM_BASE + 0xEC, IMEM_BASE + 0xED, IMEM_BASE + 0xEE}
        if (set(o.ref.writes) & ptrs) & set(o.ref.addr_reads):
            raise isa.Skip("the instruction overwrites BP/PX/PY while addressing through it (order of evaluation is not documented)")
    except isa.Skip as exc:
        o.skip = f"undocumented: {exc}"
        return o
    o.py = pycpu.run(regs, mem, c.fill, steps=1, log_reads=True)
    o.original = mem
    o._read_mem = read_mem  # type: ignore[attr-defined]
    return o


def py_accesses(o: Outcome, c: Case) -> Tuple[Set[int], Set[int]]:
    """(data reads, writes) of the Python core, code fetches removed."""
    reads: Set[int] = set()
    writes: Set[int] = set()
    lo, hi = c.addr, c.addr + CODE_WINDOW
    for e in o.py.get("reads", []):
        if e < 0:
            writes.add(-e - 1)
        elif not (lo <= e < hi):
            reads.add(e)
    return reads, writes


def value_diffs(o: Outcome, c: Case, st: isa.RefState) -> List[Tuple[str, str]]:
    """C04: destination values, flags, side effects, frame."""
    out: List[Tuple[str, str]] = []
    py = o.py
    if py.get("err"):
        return [("python-raises", f"execution raised {py['err']}")]
    pr = py["regs"]
    for r in ("BA", "I", "X", "Y", "U", "S"):
        if pr[r] != st.regs[r]:
            out.append((f"reg:{r}", f"{r} = {pr[r]:#x}, documented result {st.regs[r]:#x}"))
    if "PC" not in st.undef and pr["PC"] != st.regs["PC"]:
        out.append(("reg:PC", f"PC = {pr['PC']:#x}, documented {st.regs['PC']:#x}"))
    if "C" not in st.undef and pr["FC"] != st.regs["C"]:
        out.append(("flag:C", f"C = {pr['FC']}, documented {st.regs['C']}"))
    if "Z" not in st.undef and pr["FZ"] != st.regs["Z"]:
        out.append(("flag:Z", f"Z = {pr['FZ']}, documented {st.regs['Z']}"))
    if (py["power"] != "running") != st.halted:
        out.append(("power", f"low-power state {py['power']}, documented halted={st.halted}"))
    pw = {a: v for a, v in py["writes"]}
    skip_addrs = {IMEM_BASE + 0xFB, IMEM_BASE + 0xFC} if "IMR/ISR" in st.undef else set()
    bad = []
    for a in sorted(set(pw) | set(st.writes)):
        if a in skip_addrs:
            continue
        orig = o._read_mem(a)  # type: ignore[attr-defined]
        got = pw.get(a, orig)
        want = st.writes.get(a, orig)
        if got != want:
            bad.append((a, got, want, a in st.writes))
    if bad:
        a, got, want, inref = bad[0]
        kind = "mem:result" if inref else "mem:stray-write"
        out.append((kind, f"byte {a:#x} = {got:#x}, documented {want:#x}" + (f" (+{len(bad) - 1} more)" if len(bad) > 1 else "")))
    return out


def access_diffs(o: Outcome, c: Case) -> List[Tuple[str, str]]:
    """C03: the locations read as data / written are those the rendered operands denote."""
    st = o.ref
    out: List[Tuple[str, str]] = []
    if o.py.get("err"):
        return [("python-raises", f"execution raised {o.py['err']}")]
    reads, writes = py_accesses(o, c)
    D = set(st.data_reads)
    A = set(st.addr_reads)
    W = set(st.writes)
    if "vector-reads" in st.undef:
        return out
    extra_r = sorted(a for a in reads if a not in D and a not in A and a not in W)
    missing_r = sorted(a for a in D if a not in reads and a not in W)
    if extra_r:
        out.append(("reads-location-not-denoted", f"reads {[hex(a) for a in extra_r[:4]]} which no rendered operand denotes "
                                                  f"(denoted data {[hex(a) for a in sorted(D)[:4]]}, address formation {[hex(a) for a in sorted(A)[:4]]})"))
    if missing_r:
        out.append(("does-not-read-denoted-source", f"never reads {[hex(a) for a in missing_r[:4]]} denoted by the source operand"))
    skip_addrs = {IMEM_BASE + 0xFB, IMEM_BASE + 0xFC} if "IMR/ISR" in st.undef else set()
    ew = sorted(a for a in writes if a not in W and a not in skip_addrs)
    mw = sorted(a for a in W if a not in writes and a not in skip_addrs)
    if ew:
        out.append(("writes-location-not-denoted", f"writes {[hex(a) for a in ew[:4]]}; the destination operand denotes {[hex(a) for a in sorted(W)[:4]]}"))
    if mw:
        out.append(("does-not-write-denoted-destination", f"never writes {[hex(a) for a in mw[:4]]} denoted by the destination operand "
                                                          f"(wrote {[hex(a) for a in sorted(writes)[:4]]})"))
    return out


def large_count_diffs(o: Outcome, c: Case) -> Tuple[List[Tuple[str, str]], List[Tuple[str, str]]]:
    """For counted transfers with I > 256 (the internal side leaves its 256-byte space, which is not documented):
    (C03 part) the external addresses read/written are exactly the I consecutive ones the operand denotes;
    (C04 part) I ends at 0 and an auto-modified pointer has moved by I."""
    st = o.ref
    if o.py.get("err"):
        return [("python-raises", f"execution raised {o.py['err']}")], []
    reads, writes = py_accesses(o, c)
    ext = lambda xs: {a for a in xs if a < IMEM_BASE}  # noqa: E731
    acc: List[Tuple[str, str]] = []
    D, W = ext(st.data_reads), ext(st.writes)
    R, Wp = ext(reads), ext(writes)
    if R - D - ext(st.addr_reads) - W:
        acc.append(("large-count/reads-location-not-denoted", f"reads {len(R - D)} external bytes outside the denoted range, e.g. {[hex(a) for a in sorted(R - D)[:3]]}"))
    if D - R - W:
        acc.append(("large-count/does-not-read-denoted-source", f"I={c.regs.get('I'):#x}: {len(D - R)} of the {len(D)} denoted external source bytes are never read, "
                                                               f"e.g. {[hex(a) for a in sorted(D - R)[:3]]}"))
    if Wp - W:
        acc.append(("large-count/writes-location-not-denoted", f"writes {len(Wp - W)} external bytes outside the denoted range, e.g. {[hex(a) for a in sorted(Wp - W)[:3]]}"))
    if W - Wp:
        acc.append(("large-count/does-not-write-denoted-destination", f"I={c.regs.get('I'):#x}: {len(W - Wp)} of the {len(W)} denoted external destination bytes are "
                                                                      f"never written, e.g. {[hex(a) for a in sorted(W - Wp)[:3]]}"))
    val: List[Tuple[str, str]] = []
    pr = o.py["regs"]
    for r in ("I", "X", "Y", "U", "S"):
        if pr[r] != st.regs[r]:
            val.append((f"large-count/reg:{r}", f"I={c.regs.get('I'):#x}: {r} = {pr[r]:#x}, documented result {st.regs[r]:#x}"))
    return acc, val
