"""Reference semantics of the SC62015 instruction set, written from the tables in
sc62015/pysc62015/README.md (function column, flag columns, addressing notes) — not from the lifter.

`execute(mnemonic, operands, st)` interprets ONE rendered instruction (operands come from
spec/operands.py, i.e. from the disassembly text) on a reference state and records
  * data reads, address-formation reads, writes (address -> byte)
  * register results, C/Z results with explicit "undefined" markers
Everything the documentation leaves open is a don't-care: `undef` names the outputs that must not be
compared; `Skip` is raised for situations the documentation does not define at all.
"""
from __future__ import annotations

from dataclasses import dataclass, field
from typing import Callable, Dict, List, Optional, Set, Tuple

from .operands import Operand, IMemRef, IMEM_BASE, REG_BYTES, BP, PX, PY

M20 = 0xFFFFF
R3 = ("X", "Y", "U", "S")


class Skip(Exception):
    """The documentation does not define this situation (e.g. multi-byte internal access crossing 0xFF)."""


@dataclass
class RefState:
    regs: Dict[str, int]                       # BA, I, X, Y, U, S, PC (next instruction address), C, Z
    read_mem: Callable[[int], int]
    data_reads: List[int] = field(default_factory=list)
    addr_reads: List[int] = field(default_factory=list)
    writes: Dict[int, int] = field(default_factory=dict)
    write_order: List[int] = field(default_factory=list)
    undef: Set[str] = field(default_factory=set)
    halted: bool = False
    notes: Set[str] = field(default_factory=set)      # input classes worth naming in a signature (never used by the judgement itself)

    # ---- memory ----
    def rd(self, a: int, formation: bool = False) -> int:
        a &= 0xFFFFFF
        (self.addr_reads if formation else self.data_reads).append(a)
        if a in self.writes:
            return self.writes[a]
        return self.read_mem(a) & 0xFF

    def wr(self, a: int, v: int) -> None:
        a &= 0xFFFFFF
        self.writes[a] = v & 0xFF
        self.write_order.append(a)

    def imem(self, off: int, formation: bool = False) -> int:
        return self.rd(IMEM_BASE + (off & 0xFF), formation)

    # ---- registers ----
    def get(self, r: str) -> int:
        g = self.regs
        if r == "A":
            return g["BA"] & 0xFF
        if r == "B":
            return (g["BA"] >> 8) & 0xFF
        if r == "IL":
            return g["I"] & 0xFF
        if r == "IH":
            return (g["I"] >> 8) & 0xFF
        if r == "F":
            return (g["C"] & 1) | ((g["Z"] & 1) << 1) | (g.get("Fhi", 0) & 0xFC)
        if r == "IMR":
            return self.imem(0xFB)
        return g[r]

    def set(self, r: str, v: int) -> None:
        g = self.regs
        if r == "A":
            g["BA"] = (g["BA"] & 0xFF00) | (v & 0xFF)
        elif r == "B":
            g["BA"] = (g["BA"] & 0x00FF) | ((v & 0xFF) << 8)
        elif r == "IL":
            g["I"] = v & 0xFF                      # IH <- 0 (documented)
        elif r == "IH":
            g["I"] = (g["I"] & 0xFF) | ((v & 0xFF) << 8)
        elif r in ("BA", "I"):
            g[r] = v & 0xFFFF
        elif r in R3 or r == "PC":
            g[r] = v & M20
        elif r == "F":
            g["C"], g["Z"] = v & 1, (v >> 1) & 1
            g["Fhi"] = v & 0xFC
        elif r == "IMR":
            self.wr(IMEM_BASE + 0xFB, v)
        else:
            raise KeyError(r)


# ---------------------------------------------------------------------------------------------------
# operand access
# ---------------------------------------------------------------------------------------------------

def reg_width(r: str) -> int:
    return REG_BYTES[r]


def imem_addr(st: RefState, ref: IMemRef) -> int:
    for o in ref.uses():
        st.imem(o, formation=True)
    def peek(off):
        a = IMEM_BASE + off
        return st.writes.get(a, st.read_mem(a) & 0xFF)
    return ref.offset(peek)


# Large-count mode (used only for the "I > 256" parts of C03/C04): a counted internal-memory range longer than the 256-byte
# space necessarily leaves it; which internal bytes are then touched is not documented, so the walk is folded back
# (any folding would do) and WRAPPED tells the caller to judge only what stays documented: the external side of the
# transfer, the final count and the pointer side effects.
LENIENT = [False]
WRAPPED = [False]


def iwalk(base: int, k: int) -> int:
    """k-th byte of a counted walk through internal memory; leaving the 256-byte space is not documented."""
    off = base - IMEM_BASE + k
    if not 0 <= off <= 0xFF:
        if LENIENT[0]:
            WRAPPED[0] = True
            return IMEM_BASE + (off & 0xFF)
        raise Skip("counted internal-memory range crosses the 256-byte boundary")
    return IMEM_BASE + off


class Loc:
    """A resolved operand: register, immediate or a byte address range generator."""

    def __init__(self, st: RefState, op: Operand, width: int) -> None:
        self.st, self.op, self.width = st, op, width
        self.kind = op.kind
        self.base: Optional[int] = None        # first byte address for memory operands
        self.internal = False
        self.post: Optional[Tuple[str, int]] = None   # pointer side effect (register, new value)
        if op.kind == "imem":
            self.internal = True
            self.base = IMEM_BASE + imem_addr(st, op.imem)
        elif op.kind == "emem_abs":
            self.base = op.value & M20
        elif op.kind == "emem_reg":
            r = st.get(op.reg)
            if op.rmode == "simple":
                self.base = r
            elif op.rmode == "post":
                self.base = r
                self.post = (op.reg, r + width)
            elif op.rmode == "pre":
                self.base = (r - width) & 0xFFFFFF
                self.post = (op.reg, r - width)
            else:
                self.base = (r + op.disp) & 0xFFFFFF
        elif op.kind == "emem_imem":
            off = imem_addr(st, op.imem)
            if off + 3 > 0x100:
                raise Skip("pointer in internal memory crosses 0xFF")
            ptr = 0
            for k in range(3):
                ptr |= st.rd(IMEM_BASE + off + k, formation=True) << (8 * k)
            self.base = (ptr + op.disp) & 0xFFFFFF

    def addr(self, k: int) -> int:
        assert self.base is not None
        if self.internal:
            off = self.base - IMEM_BASE + k
            if not 0 <= off <= 0xFF:
                raise Skip("multi-byte internal access crosses the 256-byte boundary")
            return IMEM_BASE + off
        return (self.base + k) & 0xFFFFFF

    def read(self) -> int:
        st, op = self.st, self.op
        if op.kind == "reg":
            return st.get(op.reg)
        if op.kind in ("imm", "rel"):
            return op.value
        v = 0
        for k in range(self.width):
            v |= st.rd(self.addr(k)) << (8 * k)
        return v

    def write(self, v: int) -> None:
        st, op = self.st, self.op
        if op.kind == "reg":
            w = reg_width(op.reg)
            st.set(op.reg, v & ((1 << (8 * w)) - 1))
            return
        for k in range(self.width):
            st.wr(self.addr(k), (v >> (8 * k)) & 0xFF)

    def commit(self) -> None:
        if self.post:
            self.st.set(self.post[0], self.post[1])


def op_width(mn: str, ops: List[Operand]) -> int:
    """Width in bytes implied by the mnemonic / register operands."""
    if mn in ("MVW", "EXW", "CMPW"):
        return 2
    if mn in ("MVP", "EXP", "CMPP"):
        return 3
    regs = [o.reg for o in ops if o.kind == "reg"]
    if mn in ("MV", "EX") and regs:
        return max(reg_width(r) for r in regs)
    return 1


def bits_of(op: Operand, width: int) -> int:
    if op.kind == "reg" and op.reg in R3:
        return 20
    return 8 * width


# ---------------------------------------------------------------------------------------------------
# arithmetic helpers
# ---------------------------------------------------------------------------------------------------

def bcd_ok(b: int) -> bool:
    return (b & 0xF) <= 9 and (b >> 4) <= 9


def bcd_add(a: int, b: int, c: int) -> Tuple[int, int]:
    va = (a >> 4) * 10 + (a & 0xF)
    vb = (b >> 4) * 10 + (b & 0xF)
    t = va + vb + c
    return ((t % 100) // 10) << 4 | (t % 10), 1 if t > 99 else 0


def bcd_sub(a: int, b: int, c: int) -> Tuple[int, int]:
    va = (a >> 4) * 10 + (a & 0xF)
    vb = (b >> 4) * 10 + (b & 0xF)
    t = va - vb - c
    br = 0
    if t < 0:
        t += 100
        br = 1
    return ((t // 10) << 4) | (t % 10), br


# ---------------------------------------------------------------------------------------------------
# the interpreter
# ---------------------------------------------------------------------------------------------------

COND = {"Z": lambda st: st.regs["Z"] == 1, "NZ": lambda st: st.regs["Z"] == 0,
        "C": lambda st: st.regs["C"] == 1, "NC": lambda st: st.regs["C"] == 0}


def execute(mn: str, ops: List[Operand], st: RefState, addr: int, length: int) -> None:
    g = st.regs
    g["PC"] = (addr + length) & M20

    def setz(v: int, bits: int) -> None:
        g["Z"] = 1 if (v & ((1 << bits) - 1)) == 0 else 0

    # ---- moves -----------------------------------------------------------------------------------
    if mn in ("MV", "MVW", "MVP"):
        w = op_width(mn, ops)
        dst, src = ops
        for x, y in ((dst, src), (src, dst)):
            if x.kind == "reg" and y.kind == "emem_reg" and y.reg == x.reg and y.rmode in ("post", "pre"):
                raise Skip("the data register is also the auto-modified pointer (order not documented)")
        if dst.kind == "reg" and src.kind == "imm":
            st.set(dst.reg, src.value)
            return
        ls = Loc(st, src, w)
        ld = Loc(st, dst, w)
        v = ls.read()
        if src.kind == "imm":
            v = src.value
        ld.write(v)
        ls.commit()
        ld.commit()
        return
    if mn in ("MVL", "MVLD"):
        n = g["I"] or 0x10000
        dst, src = ops
        down = mn == "MVLD"
        ld = Loc(st, dst, 1)
        ls = Loc(st, src, 1)
        # [--r3] forms walk downwards from the pre-decremented pointer; [r3++] upwards
        def step(loc: Loc, op: Operand, k: int) -> int:
            if op.kind == "emem_reg" and op.rmode == "pre":
                return (st.get(op.reg) - 1 - k) & 0xFFFFFF
            base = loc.base
            if loc.internal:
                return iwalk(base, -k if down else k)
            return (base + (-k if down else k)) & 0xFFFFFF
        for k in range(n):
            st.wr(step(ld, dst, k), st.rd(step(ls, src, k)))
        for loc, op in ((ld, dst), (ls, src)):
            if op.kind == "emem_reg" and op.rmode == "post":
                st.set(op.reg, st.get(op.reg) + n)
            elif op.kind == "emem_reg" and op.rmode == "pre":
                st.set(op.reg, st.get(op.reg) - n)
        g["I"] = 0
        return
    # ---- exchange ---------------------------------------------------------------------------------
    if mn in ("EX", "EXW", "EXP"):
        w = op_width(mn, ops)
        a, b = Loc(st, ops[0], w), Loc(st, ops[1], w)
        va, vb = a.read(), b.read()
        a.write(vb)
        b.write(va)
        return
    if mn == "EXL":
        n = g["I"] or 0x10000
        a, b = Loc(st, ops[0], 1), Loc(st, ops[1], 1)
        for k in range(n):
            xa = iwalk(a.base, k)
            xb = iwalk(b.base, k)
            va, vb = st.rd(xa), st.rd(xb)
            st.wr(xa, vb)
            st.wr(xb, va)
        g["I"] = 0
        return
    # ---- 8/16/20-bit arithmetic and logic -------------------------------------------------------
    if mn in ("ADD", "SUB", "ADC", "SBC", "AND", "OR", "XOR", "CMP", "TEST", "CMPW", "CMPP", "PMDF"):
        w = op_width(mn, ops)
        if ops[0].kind == "reg":
            w = reg_width(ops[0].reg)
        if ops[0].kind == "reg" and ops[1].kind == "reg" and reg_width(ops[1].reg) > w:
            raise Skip("register pair with a source wider than the destination is not in the tables")
        if mn in ("CMPW", "CMPP") and ops[1].kind == "reg" and reg_width(ops[1].reg) != w:
            raise Skip("CMPW/CMPP with a register of another width is not in the tables")
        a, b = Loc(st, ops[0], w), Loc(st, ops[1], w if ops[1].kind != "reg" else reg_width(ops[1].reg))
        bits = bits_of(ops[0], w)
        mask = (1 << bits) - 1
        va, vb = a.read() & mask, b.read() & mask
        c = g["C"]
        if mn in ("ADC", "SBC") and c and vb == mask:
            st.notes.add("source-all-ones-with-carry-in")
        if mn in ("ADD", "ADC"):
            t = va + vb + (c if mn == "ADC" else 0)
            g["C"] = 1 if t > mask else 0
            setz(t, bits)
            a.write(t & mask)
        elif mn in ("SUB", "SBC"):
            t = va - vb - (c if mn == "SBC" else 0)
            g["C"] = 1 if t < 0 else 0
            setz(t, bits)
            a.write(t & mask)
        elif mn in ("CMP", "CMPW", "CMPP"):
            t = va - vb
            g["C"] = 1 if t < 0 else 0
            setz(t, bits)
        elif mn == "TEST":
            setz(va & vb, bits)
        elif mn == "PMDF":
            a.write((va + vb) & mask)
        else:
            t = {"AND": va & vb, "OR": va | vb, "XOR": va ^ vb}[mn]
            setz(t, bits)
            a.write(t)
        return
    if mn in ("INC", "DEC"):
        o = ops[0]
        w = reg_width(o.reg) if o.kind == "reg" else 1
        a = Loc(st, o, w)
        bits = bits_of(o, w)
        t = (a.read() + (1 if mn == "INC" else -1)) & ((1 << bits) - 1)
        setz(t, bits)
        a.write(t)
        return
    if mn in ("ROR", "ROL", "SHR", "SHL", "SWAP"):
        a = Loc(st, ops[0], 1)
        v = a.read() & 0xFF
        c = g["C"]
        if mn == "ROR":
            t, g["C"] = ((v >> 1) | ((v & 1) << 7)), v & 1
        elif mn == "ROL":
            t, g["C"] = (((v << 1) & 0xFF) | (v >> 7)), v >> 7
        elif mn == "SHR":
            t, g["C"] = ((v >> 1) | (c << 7)), v & 1
        elif mn == "SHL":
            t, g["C"] = (((v << 1) & 0xFF) | c), v >> 7
        else:
            t = ((v << 4) & 0xF0) | (v >> 4)
            st.undef.add("C")                     # table marks C as affected but gives no value
        setz(t, 8)
        a.write(t)
        return
    # ---- multi-byte block arithmetic --------------------------------------------------------------
    if mn in ("ADCL", "SBCL", "DADL", "DSBL"):
        n = g["I"] or 0x10000
        a = Loc(st, ops[0], 1)
        src_reg = ops[1].kind == "reg"
        b = None if src_reg else Loc(st, ops[1], 1)
        down = mn in ("DADL", "DSBL")
        bcd = down
        c = g["C"]
        if mn == "DADL":
            st.undef.add("DADL-carry-in")          # README: "+C"; both cores start from 0 — accepted either way (see caller)
        acc = 0
        for k in range(n):
            xa = iwalk(a.base, -k if down else k)
            va = st.rd(xa)
            if src_reg:
                vb = st.get(ops[1].reg) if (k == 0 or not bcd) else 0
            else:
                xb = iwalk(b.base, -k if down else k)
                vb = st.rd(xb)
            if bcd and not (bcd_ok(va) and bcd_ok(vb)):
                raise Skip("operands are not valid packed BCD")
            if mn in ("ADCL", "SBCL") and c and vb == 0xFF:
                st.notes.add("source-all-ones-with-carry-in")
            if mn == "ADCL":
                t = va + vb + c
                c, r = (1 if t > 0xFF else 0), t & 0xFF
            elif mn == "SBCL":
                t = va - vb - c
                c, r = (1 if t < 0 else 0), t & 0xFF
            elif mn == "DADL":
                r, c = bcd_add(va, vb, c)
            else:
                r, c = bcd_sub(va, vb, c)
            st.wr(xa, r)
            acc |= r
        g["C"] = c
        g["Z"] = 1 if acc == 0 else 0
        g["I"] = 0
        return
    if mn in ("DSLL", "DSRL"):
        # README: DSLL (n): (n) is the MSB address, addresses descend; DSRL (n): (n) is the LSB address, addresses ascend.
        # A decimal shift of the whole I-byte number by one digit: 1234 -> 2340 (DSLL), 123456 -> 012345 (DSRL).
        n = g["I"] or 0x10000
        a = Loc(st, ops[0], 1)
        xs = [iwalk(a.base, -k if mn == "DSLL" else k) for k in range(n)]
        old = [st.rd(x) for x in xs]
        acc = 0
        for k, x in enumerate(xs):
            nxt = old[k + 1] if k + 1 < n else 0
            if mn == "DSLL":
                r = ((old[k] << 4) & 0xF0) | (nxt >> 4)
            else:
                r = (old[k] >> 4) | ((nxt & 0x0F) << 4)
            st.wr(x, r)
            acc |= r
        g["Z"] = 1 if acc == 0 else 0
        g["I"] = 0
        return
    # ---- stack ------------------------------------------------------------------------------------
    if mn in ("PUSHU", "PUSHS", "POPU", "POPS", "CALL", "CALLF", "RET", "RETF", "RETI", "IR"):
        spn = "U" if mn in ("PUSHU", "POPU") else "S"
        if g[spn] < 8 or g[spn] > M20 - 8:
            raise Skip("stack access at the edge of the address space (wrap is not documented)")
    if mn in ("PUSHU", "PUSHS"):
        sp = "U" if mn == "PUSHU" else "S"
        r = ops[0].reg
        w = reg_width(r)
        v = st.get(r)
        g[sp] = (g[sp] - w) & M20
        for k in range(w):
            st.wr(g[sp] + k, (v >> (8 * k)) & 0xFF)
        if r == "IMR":
            st.wr(IMEM_BASE + 0xFB, v & 0x7F)
        return
    if mn in ("POPU", "POPS"):
        sp = "U" if mn == "POPU" else "S"
        r = ops[0].reg
        w = reg_width(r)
        v = 0
        for k in range(w):
            v |= st.rd(g[sp] + k) << (8 * k)
        g[sp] = (g[sp] + w) & M20
        st.set(r, v)
        return
    # ---- control flow ----------------------------------------------------------------------------------
    if mn.startswith("JR") or (mn.startswith("JP") and mn not in ("JPF",) and ops and ops[0].kind in ("imm", "rel")) or mn == "JPF":
        cond = mn[2:] if mn not in ("JPF",) else ""
        if cond and cond in COND and not COND[cond](st):
            return
        o = ops[0]
        if o.kind == "rel":
            g["PC"] = (addr + length + o.value) & M20
        elif o.digits <= 4:
            g["PC"] = (addr & 0xF0000) | (o.value & 0xFFFF)
        else:
            g["PC"] = o.value & M20
        return
    if mn == "JP":
        o = ops[0]
        if o.kind == "reg":
            if o.reg not in R3:
                raise Skip("JP with a 1/2-byte register is not documented")
            g["PC"] = st.get(o.reg) & M20
        else:
            g["PC"] = Loc(st, o, 3).read() & M20
        return
    if mn in ("CALL", "CALLF"):
        o = ops[0]
        ret = (addr + length) & M20
        w = 2 if mn == "CALL" else 3
        g["S"] = (g["S"] - w) & M20
        for k in range(w):
            st.wr(g["S"] + k, (ret >> (8 * k)) & 0xFF)
        g["PC"] = ((addr & 0xF0000) | (o.value & 0xFFFF)) if mn == "CALL" else (o.value & M20)
        return
    if mn in ("RET", "RETF"):
        w = 2 if mn == "RET" else 3
        v = 0
        for k in range(w):
            v |= st.rd(g["S"] + k) << (8 * k)
        g["S"] = (g["S"] + w) & M20
        g["PC"] = ((g["PC"] & 0xF0000) | v) if mn == "RET" else (v & M20)
        return
    if mn == "RETI":
        s = g["S"]
        st.wr(IMEM_BASE + 0xFB, st.rd(s))
        st.set("F", st.rd(s + 1))
        v = st.rd(s + 2) | (st.rd(s + 3) << 8) | (st.rd(s + 4) << 16)
        g["PC"] = v & M20
        g["S"] = (s + 5) & M20
        return
    if mn == "IR":
        ret = (addr + length) & M20
        s = g["S"]
        for k in range(3):
            st.wr(s - 3 + k, (ret >> (8 * k)) & 0xFF)
        st.wr(s - 4, st.get("F"))
        imr = st.imem(0xFB)
        st.wr(s - 5, imr)
        st.wr(IMEM_BASE + 0xFB, imr & 0x7F)
        g["S"] = (s - 5) & M20
        v = st.rd(0xFFFFA) | (st.rd(0xFFFFB) << 8) | (st.rd(0xFFFFC) << 16)
        g["PC"] = v & M20
        return
    # ---- misc ------------------------------------------------------------------------------------------
    if mn in ("NOP", "TCL"):
        return
    if mn == "SC":
        g["C"] = 1
        return
    if mn == "RC":
        g["C"] = 0
        return
    if mn == "WAIT":
        g["I"] = 0
        return
    if mn in ("HALT", "OFF"):
        usr = st.imem(0xF8)
        st.wr(IMEM_BASE + 0xF8, (usr & ~0x3F & 0xFF) | 0x18)
        ssr = st.imem(0xFF)
        st.wr(IMEM_BASE + 0xFF, ssr | 0x04)
        st.undef.update(("C", "Z"))
        st.halted = True
        return
    if mn == "RESET":
        st.wr(IMEM_BASE + 0xFE, st.imem(0xFE) & 0x7F)
        st.wr(IMEM_BASE + 0xF7, 0)
        usr = st.imem(0xF8)
        st.wr(IMEM_BASE + 0xF8, (usr & ~0x3F & 0xFF) | 0x18)
        st.wr(IMEM_BASE + 0xFD, 0)
        st.wr(IMEM_BASE + 0xFF, st.imem(0xFF) & ~0x04 & 0xFF)
        st.undef.update(("PC", "IMR/ISR", "vector-reads"))   # the README names "IMR (FCH)": either FB or FC may be cleared
        return
    raise Skip(f"no documented semantics for {mn}")
