"""Operand denotation: parse the *token stream* of Instruction.render() and compute, from the
documented addressing rules (sc62015/pysc62015/README.md), what each operand denotes.

Written from the documentation, not from the lifter: (n), (BP+n), (PX+n), (PY+n), (BP+PX), (BP+PY)
internal memory (8-bit wrap inside the 256-byte internal space), [lmn] absolute, [r3], [r3++],
[--r3], [r3+-n] register indirect, [(n)], [(m)+-n] memory indirect through a 3-byte little-endian
pointer in internal memory.
"""
from __future__ import annotations

from dataclasses import dataclass, field
from typing import Any, Callable, Dict, List, Optional, Tuple

IMEM_BASE = 0x100000
IMEM_NAMES: Dict[str, int] = {}
try:  # names only (an enum of documented register names -> offsets); values are documented in README
    from sc62015.pysc62015.instr.opcodes import IMEMRegisters as _IR
    IMEM_NAMES = {m: int(v) for m, v in _IR.__members__.items()}
except Exception:  # pragma: no cover
    pass
BP, PX, PY = 0xEC, 0xED, 0xEE
REG_BYTES = {"A": 1, "B": 1, "IL": 1, "IH": 1, "BA": 2, "I": 2, "X": 3, "Y": 3, "U": 3, "S": 3,
             "F": 1, "IMR": 1, "PC": 3}


@dataclass
class IMemRef:
    mode: str            # "N" "BP_N" "PX_N" "PY_N" "BP_PX" "BP_PY"
    n: Optional[int]     # literal offset (None for BP_PX / BP_PY)

    def uses(self) -> List[int]:
        """IMEM offsets of the pointer bytes the mode reads to form the address."""
        return {"N": [], "BP_N": [BP], "PX_N": [PX], "PY_N": [PY], "BP_PX": [BP, PX], "BP_PY": [BP, PY]}[self.mode]

    def offset(self, imem: Callable[[int], int]) -> int:
        bp, px, py = imem(BP), imem(PX), imem(PY)
        n = self.n or 0
        v = {"N": n, "BP_N": bp + n, "PX_N": px + n, "PY_N": py + n, "BP_PX": bp + px, "BP_PY": bp + py}[self.mode]
        return v & 0xFF


@dataclass
class Operand:
    kind: str                      # reg | imm | rel | imem | emem_abs | emem_reg | emem_imem
    text: str = ""
    reg: Optional[str] = None
    value: Optional[int] = None    # imm value / abs address / signed rel
    digits: int = 0                # number of hex digits of an immediate (2/4/5)
    imem: Optional[IMemRef] = None
    rmode: Optional[str] = None    # simple | post | pre | off
    disp: int = 0                  # signed displacement for off / emem_imem


class ParseError(ValueError):
    pass


def _tok(t) -> Tuple[str, str]:
    return type(t).__name__, str(t)


def parse_operands(tokens: List[Any]) -> Tuple[str, List[Operand]]:
    toks = [_tok(t) for t in tokens]
    if not toks or toks[0][0] != "TInstr":
        raise ParseError(f"no mnemonic in {toks}")
    mnem = toks[0][1]
    i = 1
    if i < len(toks) and toks[i][0] == "TSep" and toks[i][1].strip() == "":
        i += 1
    groups: List[List[Tuple[str, str]]] = [[]]
    for k, s in toks[i:]:
        if k == "TSep" and s == ", ":
            groups.append([])
        else:
            groups[-1].append((k, s))
    ops = [_parse_one(g) for g in groups if g]
    return mnem, ops


def _parse_imem(g: List[Tuple[str, str]]) -> Tuple[IMemRef, int]:
    """g starts after '(' ; returns (ref, number of tokens consumed including ')')."""
    j = 0
    inner: List[Tuple[str, str]] = []
    while j < len(g) and not (g[j][0] == "TEndMem" and g[j][1] == ")"):
        inner.append(g[j])
        j += 1
    if j >= len(g):
        raise ParseError(f"unterminated imem in {g}")
    vals = [s for _, s in inner]
    kinds = [k for k, _ in inner]
    if len(inner) == 1:
        k, s = inner[0]
        if k == "TInt":
            return IMemRef("N", int(s, 16)), j + 1
        if s in IMEM_NAMES:
            return IMemRef("N", IMEM_NAMES[s]), j + 1
        raise ParseError(f"unknown imem name {s}")
    if len(inner) == 3 and vals[1] == "+":
        a, _, b = vals
        if a == "BP" and b == "PX":
            return IMemRef("BP_PX", None), j + 1
        if a == "BP" and b == "PY":
            return IMemRef("BP_PY", None), j + 1
        if a in ("BP", "PX", "PY"):
            if kinds[2] == "TInt":
                n = int(b, 16)
            elif b in IMEM_NAMES:
                n = IMEM_NAMES[b]
            else:
                raise ParseError(f"bad imem offset {b}")
            return IMemRef(a + "_N", n), j + 1
    raise ParseError(f"unrecognised imem operand {inner}")


def _parse_one(g: List[Tuple[str, str]]) -> Operand:
    text = "".join(s for _, s in g)
    k0, s0 = g[0]
    if k0 == "TReg" and len(g) == 1:
        return Operand("reg", text, reg=s0)
    if k0 == "TText" and len(g) == 1 and s0 in REG_BYTES:
        return Operand("reg", text, reg=s0)
    if k0 in ("TInt", "TAddr") and len(g) == 1:
        if s0[0] in "+-":
            v = int(s0[1:], 16)
            return Operand("rel", text, value=v if s0[0] == "+" else -v, digits=len(s0) - 1)
        return Operand("imm", text, value=int(s0, 16), digits=len(s0))
    if k0 == "TBegMem" and s0 == "(":
        ref, used = _parse_imem(g[1:])
        if used + 1 != len(g):
            raise ParseError(f"trailing tokens in {text}")
        return Operand("imem", text, imem=ref)
    if k0 == "TBegMem" and s0 == "[":
        if not (g[-1][0] == "TEndMem" and g[-1][1] == "]"):
            raise ParseError(f"unterminated emem {text}")
        inner = g[1:-1]
        ik, istr = inner[0]
        if ik in ("TInt", "TAddr") and len(inner) == 1:
            return Operand("emem_abs", text, value=int(istr, 16), digits=len(istr))
        if ik == "TBegMem" and istr == "(":
            ref, used = _parse_imem(inner[1:])
            rest = inner[1 + used:]
            disp = 0
            if rest:
                if len(rest) != 1 or rest[0][1][0] not in "+-":
                    raise ParseError(f"bad displacement in {text}")
                v = int(rest[0][1][1:], 16)
                disp = v if rest[0][1][0] == "+" else -v
                return Operand("emem_imem", text, imem=ref, rmode="off", disp=disp)
            return Operand("emem_imem", text, imem=ref, rmode="simple")
        vals = [s for _, s in inner]
        if len(inner) == 1 and ik == "TReg":
            return Operand("emem_reg", text, reg=istr, rmode="simple")
        if len(inner) == 2 and ik == "TReg" and vals[1] == "++":
            return Operand("emem_reg", text, reg=istr, rmode="post")
        if len(inner) == 2 and vals[0] == "--" and inner[1][0] == "TReg":
            return Operand("emem_reg", text, reg=vals[1], rmode="pre")
        if len(inner) == 2 and ik == "TReg" and vals[1][0] in "+-":
            v = int(vals[1][1:], 16)
            return Operand("emem_reg", text, reg=istr, rmode="off", disp=v if vals[1][0] == "+" else -v)
        raise ParseError(f"unrecognised emem operand {text}")
    raise ParseError(f"unrecognised operand {text} {g}")


# ---- "Internal RAM Addressing Prefix Byte Table" of sc62015/pysc62015/README.md -----------------------------------------
# rows = mode of the first internal-memory operand, columns = mode of the second one
_ROWS = ("N", "BP_N", "PX_N", "BP_PX")
_COLS = ("N", "BP_N", "PY_N", "BP_PY")
_GRID = ((0x32, 0x30, 0x33, 0x31), (0x22, None, 0x23, 0x21), (0x36, 0x34, 0x37, 0x35), (0x26, 0x24, 0x27, 0x25))
PRE_TABLE: Dict[int, Tuple[str, str]] = {b: (_ROWS[r], _COLS[c]) for r in range(4) for c in range(4) for b in (_GRID[r][c],) if b is not None}


def pre_table_diffs(pre: Optional[int], ops: List[Operand]) -> List[Tuple[str, str]]:
    """For an instruction written `(m),(n)` (two plain internal-memory operands) the README table fixes the mode of the
    first operand (row) and of the second (column) for every prefix byte; other operand shapes are not settled by the table."""
    if pre is None or pre not in PRE_TABLE or len(ops) != 2 or any(o.kind != "imem" or o.imem is None for o in ops):
        return []
    out = []
    for slot, (o, want) in enumerate(zip(ops, PRE_TABLE[pre])):
        if o.imem.mode != want:
            out.append((f"pre-table/{'first' if slot == 0 else 'second'}-operand-mode",
                        f"prefix {pre:02X}h: operand {slot + 1} is rendered '{o.text}' (mode {o.imem.mode}); the prefix byte table gives {want}"))
    return out
