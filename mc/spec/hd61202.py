"""Reference HD61202 pair (PC-E500 wiring), written from the protocol as documented in the repository:
address low nibble = [CS1 CS0 D/I R/W]; CS 00 both, 01 right, 10 left, 11 none; windows 0x2000-0x2FFF
and 0xA000-0xAFFF; instruction byte top bits 00 on/off, 01 set Y, 10 set page, 11 start line; data write
stores at (page, y) and post-increments y mod 64; data read returns the previous column and increments;
status read returns busy<<7 | off<<5 and clears busy."""
from __future__ import annotations

from typing import List, Optional, Tuple


class RefChip:
    def __init__(self) -> None:
        self.on = False
        self.busy = False
        self.start_line = 0
        self.page = 0
        self.y = 0
        self.vram = [[0] * 64 for _ in range(8)]


def decode(addr: int) -> Optional[Tuple[str, bool, bool]]:
    """-> (cs, is_data, is_read) or None when the address is not an LCD access / no chip selected."""
    a = addr & 0xFFFFFF
    if not (0x2000 <= a <= 0x2FFF or 0xA000 <= a <= 0xAFFF):
        return None
    lo = a & 0xF
    cs = {0: "both", 1: "right", 2: "left", 3: "none"}[(lo >> 2) & 3]
    if cs == "none":
        return None
    return cs, bool((lo >> 1) & 1), bool(lo & 1)


class RefLCD:
    def __init__(self) -> None:
        self.chips = [RefChip(), RefChip()]   # 0 = left, 1 = right

    def reset(self) -> None:
        """Controller reset: both chips back to their power-on state (display off, registers 0, VRAM cleared)."""
        self.chips = [RefChip(), RefChip()]

    def _sel(self, cs: str) -> List[RefChip]:
        return {"both": self.chips, "left": [self.chips[0]], "right": [self.chips[1]]}[cs]

    def write(self, addr: int, value: int) -> None:
        d = decode(addr)
        if d is None:
            return
        cs, is_data, is_read = d
        if is_read:
            return  # a bus write to a read decoding is not a controller write
        for c in self._sel(cs):
            c.busy = True
            if is_data:
                c.vram[c.page][c.y] = value & 0xFF
                c.y = (c.y + 1) % 64
            else:
                top, data = (value >> 6) & 3, value & 0x3F
                if top == 0:
                    c.on = bool(data & 1)
                elif top == 1:
                    c.y = data
                elif top == 2:
                    c.page = data & 7
                else:
                    c.start_line = data

    def read(self, addr: int) -> Optional[int]:
        d = decode(addr)
        if d is None:
            return None
        cs, is_data, is_read = d
        if not is_read or cs == "both":
            return None
        c = self._sel(cs)[0]
        if is_data:
            v = c.vram[c.page][(c.y - 1) % 64]
            c.y = (c.y + 1) % 64
            return v
        st = (0x80 if c.busy else 0) | (0x20 if not c.on else 0)
        c.busy = False
        return st

    def state(self):
        return tuple((c.on, c.start_line, c.page, c.y, tuple(tuple(r) for r in c.vram)) for c in self.chips)
