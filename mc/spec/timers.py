"""Reference timer pair, written from the statement of C13."""
from __future__ import annotations


class RefTimer:
    def __init__(self, period: int, enabled: bool, base: int = 0) -> None:
        self.p = period
        self.enabled = enabled
        self.base = base            # boundaries at base + k*p, k >= 1
        self.done = 0               # number of boundaries already accounted for (k of last boundary <= last tick)

    def active(self) -> bool:
        return self.enabled and self.p > 0

    def next(self) -> int:
        return self.base + (self.done + 1) * self.p

    def tick(self, cycle: int) -> bool:
        """Fires once iff at least one boundary lies in (previous tick, cycle]."""
        if not self.active():
            return False
        k = (cycle - self.base) // self.p
        if k > self.done:
            self.done = k
            return True
        return False

    def reset(self, cycle: int) -> None:
        self.base = cycle
        self.done = 0


class RefTimers:
    def __init__(self, mti: int, sti: int, enabled: bool) -> None:
        self.m = RefTimer(mti, enabled)
        self.s = RefTimer(sti, enabled)
        self.isr = 0

    def tick(self, cycle: int):
        fm, fs = self.m.tick(cycle), self.s.tick(cycle)
        if fm:
            self.isr |= 1
        if fs:
            self.isr |= 2
        return fm, fs
