"""Reference memory bus written from the statement of C11: canonicalise (24-bit wrap, documented RAM
mirror window), classify from the configuration the check itself applied, plain byte map."""
from __future__ import annotations

from typing import Dict, List, Optional, Tuple

INT_BASE = 0x100000


class RefBus:
    def __init__(self, cfg: Dict) -> None:
        self.cfg = cfg
        self.mirror = bool(cfg.get("mirror"))
        self.ext: Dict[int, int] = dict(cfg.get("ext_init", {}))
        self.internal: Dict[int, int] = {}
        self.ro_ranges: List[Tuple[int, int]] = list(cfg.get("readonly", []))
        # overlays: (start, end, kind, storage)
        self.overlays: List[Tuple[int, int, str, Dict[int, int]]] = []
        for start, size in cfg.get("rom_overlays", []):
            data = {start + k: ((k & 0xFF) * 7 & 0xFF) ^ 0xC3 for k in range(size)}
            self.overlays.append((start, start + size - 1, "rom", data))
        for start, size in cfg.get("ram_overlays", []):
            self.overlays.append((start, start + size - 1, "ram", {}))
        card = cfg.get("card")
        if card is not None:
            if card == 0:
                self.overlays.append((0x40000, 0x4FFFF, "absent", {}))
            else:
                data = {0x40000 + i: cfg.get("card_fill", lambda i: 0)(i) for i in range(0)}
                self.overlays.append((0x40000, 0x40000 + card - 1, "card" if cfg.get("card_writable", True) else "cardro",
                                      {"__fill__": cfg.get("card_fill_name", "zero")}))
                if cfg.get("card_slot_tail_absent") and card < 0x10000:
                    self.overlays.append((0x40000 + card, 0x4FFFF, "absent", {}))
        if cfg.get("rom_image"):
            start, size = cfg["rom_image"]
            self.overlays.append((start, start + size - 1, "romimg", {}))
        self.overlays.sort(key=lambda o: (o[0], o[1]))

    # -- canonical location ----------------------------------------------------------------
    def loc(self, addr: int) -> Optional[Tuple[str, int]]:
        a = addr & 0xFFFFFF
        if INT_BASE <= a <= INT_BASE + 0xFF:
            return ("int", a - INT_BASE)
        if a > INT_BASE + 0xFF:
            return None                      # outside the documented 1 MiB + 256 B space: not judged
        return ("ext", a)

    def _ov(self, a: int):
        for o in self.overlays:
            if o[0] <= a <= o[1]:
                return o
        return None

    def _card_default(self, o, a: int) -> int:
        if o[3].get("__fill__") == "xor5a":
            return ((a - 0x40000) & 0xFF) ^ 0x5A
        return 0

    def read(self, addr: int) -> Optional[int]:
        l = self.loc(addr)
        if l is None:
            return None
        kind, a = l
        if kind == "int":
            return self.internal.get(a, 0)
        o = self._ov(a)
        if o is not None:
            if o[2] == "absent":
                return 0
            if o[2] == "rom":
                return o[3][a]
            if o[2] == "romimg":
                if a - o[0] >= self.cfg.get("rom_len", 1 << 30):
                    return None              # window beyond the loaded image: initial contents not documented (still read-only)
                return self.cfg["rom_byte"](a)
            if o[2] in ("card", "cardro"):
                return o[3].get(a, self._card_default(o, a))
            return o[3].get(a, 0)
        if self.mirror and 0x80000 <= a <= 0xBFFFF:
            a = 0xB8000 + (a & 0x7FFF)
        return self.ext.get(a, 0)

    def write(self, addr: int, v: int) -> None:
        l = self.loc(addr)
        if l is None:
            return
        kind, a = l
        v &= 0xFF
        if kind == "int":
            self.internal[a] = v
            return
        o = self._ov(a)
        if o is not None:
            if o[2] in ("absent", "rom", "romimg", "cardro"):
                return
            o[3][a] = v
            return
        if self.mirror and 0x80000 <= a <= 0xBFFFF:
            a = 0xB8000 + (a & 0x7FFF)
        for s, e in self.ro_ranges:
            if s <= a <= e:
                return
        self.ext[a] = v

    # -- storage identity (for per-transition judgement) -----------------------------------------
    def key(self, addr: int):
        """Canonical storage cell of a documented address: aliases of one location share a key."""
        l = self.loc(addr)
        if l is None:
            return None
        kind, a = l
        if kind == "int":
            return ("int", a)
        o = self._ov(a)
        if o is not None:
            return ("ov", o[0], o[2], a)
        if self.mirror and 0x80000 <= a <= 0xBFFFF:
            a = 0xB8000 + (a & 0x7FFF)
        return ("ext", a)

    def writable(self, key) -> bool:
        if key is None:
            return False
        if key[0] == "int":
            return True
        if key[0] == "ov":
            return key[2] in ("ram", "card")
        a = key[1]
        return not any(s <= a <= e for s, e in self.ro_ranges)
