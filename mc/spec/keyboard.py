"""Reference keyboard automaton written from the statement of C14.

Per key: `hs` = consecutive scan ticks held on a strobed column, `ns` = consecutive ticks not
(held and strobed) while logically down.  A debounced press produces one press event, repeats at the
configured cadence, and one release event after the release interval.
"""
from __future__ import annotations

from typing import Dict, List, Optional, Set, Tuple


class KeyRef:
    __slots__ = ("col", "row", "code", "held", "hs", "ns", "down", "rep", "released_for")

    def __init__(self, col: int, row: int) -> None:
        self.col, self.row = col, row
        self.code = (col << 3) | row
        self.held = False
        self.hs = 0
        self.ns = 0
        self.down = False
        self.rep = 0
        self.released_for: Optional[int] = None   # scan ticks since physical release (None: never / re-pressed)


class RefKeyboard:
    def __init__(self, keys: Dict[str, Tuple[int, int]], active_high: bool, press: int, release: int,
                 delay: int, interval: int, repeat_enabled: bool = True, init_strobe=None,
                 release_restarts: bool = False) -> None:
        self.keys = {k: KeyRef(c, r) for k, (c, r) in keys.items()}
        self.active_high = active_high
        self.press_th, self.release_th, self.delay, self.interval = press, release, delay, interval
        self.repeat_enabled = repeat_enabled
        # The statement fixes the release interval but not its origin when a key that already went unseen (column no
        # longer strobed) is then physically released: the count of unseen ticks may continue or restart there.
        self.release_restarts = release_restarts
        self.kol = 0x00 if active_high else 0xFF
        self.koh = 0x00 if active_high else 0x0F
        if init_strobe is not None:
            self.kol, self.koh = init_strobe

    def strobed(self, col: int) -> bool:
        bit = (self.kol >> col) & 1 if col < 8 else (self.koh >> (col - 8)) & 1
        return bit == 1 if self.active_high else bit == 0

    def press(self, k: str) -> None:
        s = self.keys[k]
        if not s.held:
            s.held = True
            s.hs = 0
            s.released_for = None
            if s.down:
                s.rep = self.delay   # a fresh physical press restarts the repeat cadence

    def release(self, k: str) -> None:
        s = self.keys[k]
        if s.held:
            s.held = False
            s.released_for = 0
            if self.release_restarts:
                s.ns = 0

    def tick(self) -> List[Tuple[int, bool]]:
        ev: List[Tuple[int, bool]] = []
        for s in self.keys.values():
            if s.held and self.strobed(s.col):
                s.ns = 0
                if not s.down:
                    s.hs += 1
                    if s.hs >= self.press_th:
                        s.down = True
                        s.rep = self.delay
                        ev.append((s.code, False))
                else:
                    if self.repeat_enabled and self.interval > 0:
                        if s.rep > 0:
                            s.rep -= 1
                        if s.rep <= 0:
                            ev.append((s.code, False))
                            s.rep = self.interval
            else:
                s.hs = 0
                if s.down:
                    s.ns += 1
                    if s.ns >= self.release_th:
                        s.down = False
                        s.ns = 0
                        ev.append((s.code, True))
            if not s.held and s.released_for is not None:
                s.released_for += 1
        return ev

    # ---- KIL bounds ------------------------------------------------------------------
    def kil_allowed(self) -> int:
        """Rows that MAY be shown: a held or recently released key on a strobed column."""
        v = 0
        for s in self.keys.values():
            if not self.strobed(s.col):
                continue
            if s.held or (s.released_for is not None and s.released_for < self.release_th) or s.down:
                v |= 1 << s.row
        return v

    def kil_required(self) -> int:
        """Rows that MUST be shown: held on a strobed column for at least the debounce interval."""
        v = 0
        for s in self.keys.values():
            if s.held and self.strobed(s.col) and s.down:
                v |= 1 << s.row
        return v
