"""Reference register file, written from the statement of C08 (not from the code)."""
from __future__ import annotations

NAMES = ["A", "B", "BA", "IL", "IH", "I", "X", "Y", "U", "S", "PC", "F", "FC", "FZ"]
M20 = 0xFFFFF


class RefRegs:
    def __init__(self) -> None:
        self.c = {"BA": 0, "I": 0, "X": 0, "Y": 0, "U": 0, "S": 0, "PC": 0, "F": 0}

    def set(self, name: str, v: int) -> None:
        c = self.c
        if name == "BA":
            c["BA"] = v & 0xFFFF
        elif name == "A":
            c["BA"] = (c["BA"] & 0xFF00) | (v & 0xFF)
        elif name == "B":
            c["BA"] = (c["BA"] & 0x00FF) | ((v & 0xFF) << 8)
        elif name == "I":
            c["I"] = v & 0xFFFF
        elif name == "IL":
            c["I"] = v & 0xFF  # a write to IL clears IH
        elif name == "IH":
            c["I"] = (c["I"] & 0x00FF) | ((v & 0xFF) << 8)
        elif name in ("X", "Y", "U", "S", "PC"):
            c[name] = v & M20
        elif name == "F":
            c["F"] = v & 0xFF
        elif name == "FC":
            c["F"] = (c["F"] & ~1 & 0xFF) | (v & 1)
        elif name == "FZ":
            c["F"] = (c["F"] & ~2 & 0xFF) | ((v & 1) << 1)
        else:
            raise KeyError(name)

    def get(self, name: str) -> int:
        c = self.c
        if name in c:
            return c[name]
        return {"A": c["BA"] & 0xFF, "B": c["BA"] >> 8, "IL": c["I"] & 0xFF, "IH": c["I"] >> 8,
                "FC": c["F"] & 1, "FZ": (c["F"] >> 1) & 1}[name]

    def readall(self):
        return {n: self.get(n) for n in NAMES}

    def blob(self) -> bytes:
        out = b""
        for n, w in (("PC", 3), ("BA", 2), ("I", 2), ("X", 3), ("Y", 3), ("U", 3), ("S", 3), ("F", 1)):
            out += self.c[n].to_bytes(w, "little")
        return out
