"""Thin drivers around the repository's real decoder / arch callbacks."""
from __future__ import annotations

from typing import Any, Dict, List, Optional, Tuple

from binja_test_mocks import binja_api  # noqa: F401
from binja_test_mocks.mock_llil import MockLowLevelILFunction, MockLLIL, MockLabel, MockIfExpr, MockGoto
from binja_test_mocks.tokens import asm_str

from sc62015.arch import SC62015
from sc62015.pysc62015.instr import decode, encode, OPCODES
from sc62015.pysc62015.instr.opcodes import InvalidInstruction

PRE_BYTES = [0x21, 0x22, 0x23, 0x24, 0x25, 0x26, 0x27, 0x30, 0x31, 0x32, 0x33, 0x34, 0x35, 0x36, 0x37]
PRE_CHOICES: List[Optional[int]] = [None] + PRE_BYTES
MAXLEN = 7

ARCH = SC62015()


def shape_bytes(pre: Optional[int], op: int, b2: int, tail: bytes) -> bytes:
    head = (bytes([pre]) if pre is not None else b"") + bytes([op, b2])
    return (head + tail)[: max(MAXLEN, len(head))][:MAXLEN] if len(head) + len(tail) >= MAXLEN else head + tail


TAILS = {
    "00": bytes(5),
    "ff": b"\xff" * 5,
    "mix": bytes.fromhex("123456789a"),
    "alt": bytes.fromhex("a55a3cc3e7"),
}


def il_canon(il: MockLowLevelILFunction) -> Any:
    """Structural form of lifted IL with labels renamed by first occurrence."""
    names: Dict[int, int] = {}

    def lab(x: Any) -> str:
        k = id(x)
        if k not in names:
            names[k] = len(names)
        return f"L{names[k]}"

    def conv(n: Any) -> Any:
        if isinstance(n, MockLabel):
            return ("LABEL", lab(n.label))
        if isinstance(n, MockIfExpr):
            return ("IF", conv(n.cond), lab(n.t), lab(n.f))
        if isinstance(n, MockGoto):
            return ("GOTO", lab(n.label))
        if isinstance(n, MockLLIL):
            return (n.op,) + tuple(conv(o) for o in n.ops)
        if isinstance(n, (list, tuple)):
            return tuple(conv(o) for o in n)
        if isinstance(n, (int, str)) or n is None:
            return n
        name = getattr(n, "name", None)
        if name is not None and not callable(name):
            return (type(n).__name__, str(name))
        return (type(n).__name__, repr(getattr(n, "__dict__", n)))

    return tuple(conv(n) for n in il.ils)


def py_decode(data: bytes, addr: int = 0x1000):
    """decode() with the exception classes the arch hooks treat as 'reject'.
    Returns (instr|None, error|None)."""
    try:
        return decode(bytes(data), addr, OPCODES), None
    except (AssertionError, InvalidInstruction) as exc:
        return None, type(exc).__name__
    except NotImplementedError:
        return None, "NotImplementedError"


def info_fp(data: bytes, addr: int = 0x1000):
    """(accepted, length, branches) from get_instruction_info; exceptions propagate."""
    info = ARCH.get_instruction_info(bytes(data), addr)
    if info is None:
        return None
    return (info.length, tuple((str(getattr(b.type, "name", b.type)), b.target) for b in info.branches))


def info_fp_fresh(data: bytes, addr: int = 0x1000):
    """The same question put to an architecture object that has never answered anything ("EXC" if it raises)."""
    try:
        info = SC62015().get_instruction_info(bytes(data), addr)
    except Exception:  # noqa: BLE001
        return "EXC"
    if info is None:
        return None
    return (info.length, tuple((str(getattr(b.type, "name", b.type)), b.target) for b in info.branches))


def text_fp(data: bytes, addr: int = 0x1000):
    r = ARCH.get_instruction_text(bytes(data), addr)
    if r is None:
        return None
    toks, ln = r
    return ("".join(t.text for t in toks), ln, toks[0].text if toks else "")


def il_fp(data: bytes, addr: int = 0x1000):
    il = MockLowLevelILFunction()
    ln = ARCH.get_instruction_low_level_il(bytes(data), addr, il)
    if ln is None:
        return None
    return (ln, il_canon(il))


def full_fp(data: bytes, addr: int = 0x1000):
    """Everything the three callbacks say about data@addr (for history checks)."""
    out = []
    for f in (info_fp, text_fp, il_fp):
        try:
            out.append(f(data, addr))
        except Exception as exc:  # noqa: BLE001
            out.append(("EXC", type(exc).__name__))
    return tuple(out)
