"""Control-flow scripts: every sequence (up to a length) over call / jump / return / interrupt instructions, laid out
so that each instruction sits where the previous one transferred control to.  The layout is computed by stepping the
Python core (one of the two implementations under comparison); the complete memory image is then executed on both
cores.  Used by C06 (Python vs Rust) and C07 (same object vs fresh object from the same architectural state)."""
from __future__ import annotations

import itertools
from typing import Any, Dict, Iterator, List, Optional, Tuple

from . import pycpu

START = 0x11000
VECTOR = 0xFFFFA
HANDLER = 0x21800

# name -> (kind, length)
OPS = ["CALL", "CALLF_o", "CALLF_s", "JP", "JPF_o", "RET", "RETF", "RETI", "IR", "PUSHS_F", "PUSHU_BA", "NOP"]


def encode(op: str, pc: int, k: int) -> Tuple[bytes, str]:
    page = pc & 0xFF0000
    near = 0x2000 + 0x140 * k                    # fresh offset in the current page
    other = (((page >> 16) % 3) + 1) << 16         # a different page among 1..3
    far_o = other | (0x3000 + 0x140 * k)
    far_s = page | (0x4000 + 0x140 * k)
    if op == "CALL":
        return bytes([0x04, near & 0xFF, near >> 8]), "CALL"
    if op == "JP":
        return bytes([0x02, near & 0xFF, near >> 8]), "JP"
    if op == "CALLF_o":
        return bytes([0x05, far_o & 0xFF, (far_o >> 8) & 0xFF, far_o >> 16]), "CALLF"
    if op == "CALLF_s":
        return bytes([0x05, far_s & 0xFF, (far_s >> 8) & 0xFF, far_s >> 16]), "CALLF"
    if op == "JPF_o":
        return bytes([0x03, far_o & 0xFF, (far_o >> 8) & 0xFF, far_o >> 16]), "JPF"
    return {"RET": b"\x06", "RETF": b"\x07", "RETI": b"\x01", "IR": b"\xfe", "PUSHS_F": b"\x4f", "PUSHU_BA": b"\x2a",
            "NOP": b"\x00"}[op], op.split("_")[0]


def build(seq: Tuple[str, ...], st: Dict[str, Any]) -> Optional[Tuple[Dict[str, int], Dict[int, int], int, List[int]]]:
    """Lay the script out by stepping the Python core. Returns (regs, mem, fill, pcs) or None when two instructions
    would have to share bytes, the core reports an error, or control leaves the 1 MiB external space."""
    regs = dict(st["bg"])
    regs["PC"] = START
    regs["F"] = st["F"]
    regs["U"] = 0x38000
    regs["S"] = 0x3A000
    fill = st["fill"]
    mem: Dict[int, int] = {pycpu.IMEM + 0xEC: st["bpx"][0], pycpu.IMEM + 0xED: st["bpx"][1], pycpu.IMEM + 0xEE: st["bpx"][2],
                           VECTOR: HANDLER & 0xFF, VECTOR + 1: (HANDLER >> 8) & 0xFF, VECTOR + 2: HANDLER >> 16}
    pcs: List[int] = []
    placed: Dict[int, int] = {}
    pc = START
    for k, op in enumerate(seq):
        b, _ = encode(op, pc, k)
        for i, v in enumerate(b):
            a = pc + i
            if a in placed and placed[a] != v or a in mem and a not in placed or a >= 0x100000:
                return None
        for i, v in enumerate(b):
            placed[pc + i] = v
            mem[pc + i] = v
        pcs.append(pc)
        o = pycpu.run(regs, mem, fill, steps=k + 1)
        if o.get("err") or o["power"] != "running":
            return None
        # instructions already executed must not have been overwritten by stack pushes
        if any(a in placed for a, _ in o["writes"]):
            return None
        pc = o["regs"]["PC"]
    return regs, mem, fill, pcs


def scripts(length: int) -> Iterator[Tuple[str, ...]]:
    for n in range(1, length + 1):
        for seq in itertools.product(OPS, repeat=n):
            # NOP/pushes only matter in front of a return or call
            if seq[-1] in ("NOP", "PUSHS_F", "PUSHU_BA"):
                continue
            yield seq


def name(seq) -> str:
    return "+".join(s.split("_")[0] for s in seq)
