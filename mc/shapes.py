"""Enumeration of the structural instruction shapes shared by several checks."""
from __future__ import annotations

import re
from typing import Dict, Iterable, List, Optional, Tuple

from . import drv

IMM_B2 = [0x00, 0x12, 0x7F, 0x80, 0xEC, 0xFF]


def class_key(ins) -> Tuple:
    toks = ins.render()
    txt = []
    for t in toks:
        k = type(t).__name__
        s = str(t)
        if k in ("TInt", "TAddr"):
            s = s[0] if s[:1] in "+-" else "#"
        txt.append((k, s))
    return (ins.length(), tuple(txt))


def shapes_for(pre: Optional[int], op: int, tail: bytes, imm_b2: Iterable[int] = IMM_B2) -> List[bytes]:
    """All structurally distinct accepted encodings for (pre, op): every second byte when it selects
    structure (registers, modes), a small palette when it is a plain immediate/address byte."""
    acc: Dict[int, Tuple] = {}
    for b2 in range(256):
        head = (bytes([pre]) if pre is not None else b"") + bytes([op, b2])
        d = (head + tail)[: drv.MAXLEN]
        ins, err = drv.py_decode(d, 0x1000)
        if ins is None:
            continue
        nm = ins.name()
        if nm.startswith("PRE") or nm.startswith("???"):
            continue
        acc[b2] = class_key(ins)
    if not acc:
        return []
    classes = set(acc.values())
    if len(classes) == 1 and len(acc) == 256:
        b2s = [b for b in imm_b2]
    else:
        b2s = sorted(acc)
    out = []
    for b2 in b2s:
        if b2 not in acc:
            continue
        head = (bytes([pre]) if pre is not None else b"") + bytes([op, b2])
        d = (head + tail)[: drv.MAXLEN]
        out.append(d)
    return out
