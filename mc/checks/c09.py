"""C09 — disassembled text reassembles to an equivalent instruction.

Exhaustive enumeration of every structural shape the disassembler accepts (prefix x opcode x selector byte, two
operand fills); the rendered tokens are written out with hexadecimal literals for numbers and names for named
internal registers and fed to the real Assembler. Oracle (metamorphic): assembling succeeds; the bytes disassemble
to the same text, have the same length and lifted IL; a second disassemble/assemble round is a fixed point.
"""
from __future__ import annotations

import re
from typing import Any, Dict, List, Optional, Tuple

from ..core import VB, nproc
from ..par import pmap, chunks
from .. import drv, shapes

from sc62015.pysc62015.sc_asm import Assembler, AssemblerError

ADDR = 0x0


def asm_text(ins) -> str:
    out = []
    for t in ins.render():
        k = type(t).__name__
        s = str(t)
        if k in ("TInt", "TAddr"):
            if s[:1] in "+-":
                out.append(s[0] + "0x" + s[1:])
            else:
                out.append("0x" + s)
        else:
            out.append(s)
    return "".join(out)


def shape_of(text: str) -> str:
    mn, _, ops = text.partition(" ")
    ops = ops.strip()
    ops = re.sub(r"0x[0-9A-Fa-f]+", "#", ops)
    ops = re.sub(r"\((BL|BH|CL|CH|DL|DH|SI\d?|DI\d?|IOCS_WS\d?|BP|PX|PY|AMC|KOL|KOH|KIL|EOL|EOH|EIL|EIH|UCR|USR|RXD|TXD|IMR|ISR|SCR|LCC|SSR)\)",
                 "(NAME)", ops)
    ops = re.sub(r"\b(X|Y|U|S)\b", "R20", ops)
    ops = re.sub(r"\b(BA|I)\b", "R16", ops)
    ops = re.sub(r"\b(IL|IH|A|B|F|IMR)\b", "R8", ops)
    return f"{mn}/{ops.replace(' ', '')}" if ops else mn


def lift_canon(ins, addr):
    il = drv.MockLowLevelILFunction()
    try:
        ins.lift(il, addr)
    except Exception as exc:  # noqa: BLE001
        return ("EXC", type(exc).__name__)
    return drv.il_canon(il)


_ASM = None


def assemble(text: str) -> Tuple[Optional[bytes], Optional[str]]:
    try:
        b = Assembler().assemble(text + "\n")
        return bytes(b.as_binary()), None
    except AssemblerError as exc:
        msg = str(exc).splitlines()[0]
        return None, msg
    except Exception as exc:  # noqa: BLE001
        return None, f"{type(exc).__name__}: {exc}"


def classify_error(msg: str) -> str:
    m = msg.lower()
    if "invalid addressing mode combination" in m:
        return "rejects-mode-combination"
    if "could not find a matching opcode" in m:
        return "no-matching-opcode"
    if "parsing failed" in m:
        return "does-not-parse"
    if "use imem register name" in m:
        return "demands-register-name"
    if "unsupported addressing mode" in m:
        return "unsupported-single-mode"
    return "other-error"


def judge(data: bytes, vb: VB, seen_texts: set) -> str:
    ins, err = drv.py_decode(data, ADDR)
    if ins is None:
        return "rejected"
    name = ins.name()
    if name.startswith("PRE") or name.startswith("???"):
        return "rejected"
    if drv.text_fp(data[: ins.length()], ADDR) is None:
        return "rejected"       # the disassembler itself does not accept it (C02's business)
    text = asm_text(ins)
    if getattr(ins, "_pre", None) is not None and "(" not in text:
        return "rejected"       # a PRE byte in front of an instruction without internal-memory operand is redundant;
                                # the assembler legitimately does not reproduce it
    if text in seen_texts:
        return "dup"
    seen_texts.add(text)
    wit = lambda: {"bytes": data[: ins.length()].hex(), "text": text}  # noqa: E731
    shp = f"{shape_of(text)}/op={ins.opcode:02X}"
    out, emsg = assemble(text)
    if out is None:
        vb.add(f"C09/assembler-{classify_error(emsg)}/{shp}", f"'{text}' (from {data[: ins.length()].hex()}): {emsg}", wit)
        return "bad"
    i2, _ = drv.py_decode(out + bytes(4), ADDR)
    if i2 is None:
        vb.add(f"C09/assembled-bytes-undecodable/{shp}", f"'{text}' assembles to {out.hex()} which does not decode", wit)
        return "bad"
    t2 = asm_text(i2)
    bad = False
    if i2.length() != len(out):
        vb.add(f"C09/emitted-length-differs-from-decoded/{shp}", f"'{text}' -> {out.hex()} ({len(out)} bytes) decodes with length {i2.length()}", wit)
        bad = True
    if t2 != text:
        vb.add(f"C09/reassembled-text-differs/{shp}", f"'{text}' (from {data[: ins.length()].hex()}) assembles to {out.hex()} = '{t2}'", wit)
        bad = True
    elif lift_canon(ins, ADDR) != lift_canon(i2, ADDR):
        vb.add(f"C09/reassembled-il-differs/{shp}", f"'{text}': {data[: ins.length()].hex()} and {out.hex()} render the same but lift differently", wit)
        bad = True
    if not bad:
        out2, e2 = assemble(t2)
        if out2 != out:
            vb.add(f"C09/not-a-fixed-point/{shp}", f"'{text}': second round gives {out2.hex() if out2 else e2} instead of {out.hex()}", wit)
            bad = True
    return "bad" if bad else "ok"


def _shard(args):
    pairs, tails = args
    vb = VB()
    n = ok = texts = 0
    seen: set = set()
    for pre, op in pairs:
        for tail in tails:
            for d in shapes.shapes_for(pre, op, tail):
                r = judge(d, vb, seen)
                n += 1
                if r in ("ok", "bad"):
                    texts += 1
                ok += r == "ok"
    return {"n": n, "ok": ok, "texts": texts, "vb": vb}


SWEEP_QUICK = [0x00, 0x01, 0x7F, 0x80, 0xFF]
try:  # every offset that has a register name is a class of its own for the renderer and the assembler (names instead of numbers)
    from sc62015.pysc62015.instr.opcodes import IMEMRegisters as _IMR
    NAMED = sorted({int(v) for v in _IMR.__members__.values()})
except Exception:  # pragma: no cover
    NAMED = list(range(0xEC, 0x100))
SWEEP_QUICK = sorted(set(SWEEP_QUICK) | set(NAMED))


def _shard_sweep(args):
    """Operand value sweep: for the first accepted shape of every (prefix, opcode), every operand byte position takes
    every value of the palette (all 256 in thorough) while the other bytes keep the fill."""
    pairs, tail, values = args
    vb = VB()
    n = ok = texts = 0
    seen: set = set()
    for pre, op in pairs:
        classes = set()
        for d in shapes.shapes_for(pre, op, tail):
            ins, _ = drv.py_decode(d, ADDR)
            if ins is None:
                continue
            cls = (ins.length(), shape_of(asm_text(ins)))
            if cls in classes:          # one representative per rendered operand shape (register width classes, modes, offsets)
                continue
            classes.add(cls)
            k = (1 if pre is None else 2)
            for pos in range(k, ins.length()):        # the selector byte itself is enumerated structurally; as a plain operand byte it
                for v in (values if pos > k else [x for x in NAMED if x != d[pos]]):      # still takes every offset that has a register name

                    dd = bytearray(d)
                    dd[pos] = v
                    r = judge(bytes(dd), vb, seen)
                    n += 1
                    if r in ("ok", "bad"):
                        texts += 1
                    ok += r == "ok"
    return {"n": n, "ok": ok, "texts": texts, "vb": vb}


def _two_operand_opcodes() -> List[int]:
    """Opcodes whose text depends on the second PRE slot (two internal-memory operands)."""
    out = []
    for op in range(256):
        a, _ = drv.py_decode(bytes([0x30, op]) + bytes.fromhex("3404050607"), ADDR)
        b, _ = drv.py_decode(bytes([0x32, op]) + bytes.fromhex("3404050607"), ADDR)
        if a is not None and b is not None and asm_text(a) != asm_text(b):
            out.append(op)
    return out


def run(ctx) -> None:
    pres = list(drv.PRE_CHOICES) if ctx.thorough else [None, 0x32, 0x25, 0x37, 0x21]
    if ctx.seed and not ctx.thorough:
        pres.append(drv.PRE_BYTES[ctx.seed % 15])
    pairs = [(p, op) for p in dict.fromkeys(pres) for op in range(256) if not (p is None and op in drv.PRE_BYTES)]
    two = _two_operand_opcodes()
    # the remaining prefixes matter only where both PRE slots are used: all 15 x those opcodes in every tier
    pairs += [(p, op) for p in drv.PRE_BYTES if p not in pres for op in two]
    tails = [bytes.fromhex("3404050607")] + ([bytes.fromhex("d4ec01fb0c")] if ctx.thorough else [])
    res = pmap(_shard, [(s, tails) for s in chunks(pairs, nproc() * 4)])
    sweep_pairs = [(p, op) for p in (None, 0x32) for op in range(256) if not (p is None and op in drv.PRE_BYTES)]
    res += pmap(_shard_sweep, [(s, tails[0], list(range(256)) if ctx.thorough else SWEEP_QUICK) for s in chunks(sweep_pairs, nproc() * 4)])
    for r in res:
        ctx.merge_bucket(r["vb"])
    ctx.level = "exploration"
    ctx.coverage.update({
        "evaluations": sum(r["n"] for r in res),
        "distinct_nontrivial": sum(r["texts"] for r in res),
        "round_trips_ok": sum(r["ok"] for r in res),
        "exhaustive": True,
        "rule": (f"every structural shape for prefix set {sorted(str(p) for p in dict.fromkeys(pres))} x {len(tails)} operand fill(s); "
                 "the token stream of render() is written with 0x literals (named internal registers stay names) and assembled by "
                 "Assembler().assemble; judged: success, same text, same length, same lifted IL, second-round fixed point. "
                 "distinct_nontrivial = distinct instruction texts sent through the assembler."),
        "samples": [{"bytes": "30c81020", "text": "MV    (0x10), (BP+0x20)"}, {"bytes": "9084", "text": "MV    A, [X+0x12]"}],
    })
    ctx.assumptions += ["text presentation is the one the statement fixes: hexadecimal literals for numbers, names for named internal registers"]


def replay(ctx, w) -> Optional[str]:
    vb = VB()
    judge(bytes.fromhex(w["bytes"]) + bytes(6), vb, set())
    for sig, (cnt, wl) in vb.d.items():
        return wl[0][0]
    return None
