"""C06 — the Rust LLAMA core and the Python core agree on every instruction.

Differential exploration:
  S  every structural shape (16 prefix choices x opcode x selector byte; immediates by palette)
     x a state palette (BP/PX/PY triples x register backgrounds x flags x memory fills), one
     instruction on each core from the same state, all observables compared
  P  lockstep programs: every ordered pair (thorough: triple) of a palette of instructions, plus
     loop skeletons run for N steps, compared after every step
Domain = encodings the Python decoder accepts and re-encodes, minus the two unknown-instruction rows
and unfused PRE bytes.
"""
from __future__ import annotations

from typing import Any, Dict, List, Optional, Tuple

from ..core import VB, nproc
from ..par import pmap, chunks
from .. import drv, pycpu, shapes
from .. import rustbridge as rb

IMEM = 0x100000
CODE = 0x1000
CF_OPS = set(range(0x01, 0x08)) | set(range(0x10, 0x20)) | {0xFE, 0xFF}
SKIP_NAMES = ("PRE", "???")

BPX = [(0x10, 0x23, 0x45), (0xF0, 0x20, 0x31), (0x00, 0x00, 0x00)]
REGS_BG = [
    {"BA": 0x1234, "I": 0x0002, "X": 0x20100, "Y": 0x20200, "U": 0x20300, "S": 0x20400},
    {"BA": 0xFF80, "I": 0x0003, "X": 0x7FFF0, "Y": 0x10000, "U": 0xB8100, "S": 0xB9000},
    {"BA": 0x00FF, "I": 0x0001, "X": 0x000010, "Y": 0x0FFF00, "U": 0x30000, "S": 0x40000},
]
WRAP_BG = {"BA": 0x8001, "I": 0x0002, "X": 0xFFFFE, "Y": 0xFFFFF, "U": 0x00001, "S": 0x00002}


def states_for(tier_thorough: bool, seed: int) -> List[Dict[str, Any]]:
    st = []
    if not tier_thorough:
        st.append({"bpx": BPX[0], "bg": REGS_BG[0], "F": 0b01, "fill": 0x101})
        st.append({"bpx": BPX[1], "bg": REGS_BG[1], "F": 0b10, "fill": 0x002})
        return st
    k = 0
    for bpx in BPX:
        for bg in REGS_BG[:2]:
            st.append({"bpx": bpx, "bg": bg, "F": k & 3, "fill": (0x100 if k % 2 == 0 else 0) + 1 + k})
            k += 1
    st.append({"bpx": BPX[0], "bg": REGS_BG[2], "F": 3, "fill": 0x109})
    st.append({"bpx": BPX[1], "bg": WRAP_BG, "F": 0, "fill": 0x10A, "wrap": True})
    return st


def build_case(data: bytes, st: Dict[str, Any], pc: int = CODE) -> Tuple[Dict[str, int], Dict[int, int], int]:
    regs = dict(st["bg"])
    regs["PC"] = pc
    regs["F"] = st["F"]
    mem = {((pc + i) & 0xFFFFFF): b for i, b in enumerate(data)}
    bp, px, py = st["bpx"]
    mem[IMEM + 0xEC] = bp
    mem[IMEM + 0xED] = px
    mem[IMEM + 0xEE] = py
    return regs, mem, st["fill"]


def rs_req(regs, mem, fill, steps=1, trace=False, ignore_power=False):
    return {"cmd": "exec", "regs": regs, "mem": [[a, v] for a, v in mem.items()], "fill": fill, "steps": steps,
            "trace": trace, "ignore_power": ignore_power}


def compare(py: Dict[str, Any], rs: Dict[str, Any]) -> List[Tuple[str, str]]:
    """Return (field, description) for every observable that differs."""
    out = []
    if rs.get("panic"):
        return [("rust-panic", f"rust panicked: {rs['panic']}")]
    if py.get("err") or rs.get("err"):
        if bool(py.get("err")) != bool(rs.get("err")):
            out.append(("error-one-side", f"python err={py.get('err')} rust err={rs.get('err')}"))
        return out
    if py["lens"] != rs["lens"]:
        out.append(("length", f"bytes consumed python {py['lens']} rust {rs['lens']}"))
    for n in pycpu.ARCH_REGS:
        if py["regs"][n] != rs["regs"][n]:
            if n in ("A", "B") and py["regs"]["BA"] != rs["regs"]["BA"]:
                continue
            if n in ("IL", "IH") and py["regs"]["I"] != rs["regs"]["I"]:
                continue
            if n in ("FC", "FZ"):
                out.append((f"flag:{n[1]}", f"{n}: python {py['regs'][n]} rust {rs['regs'][n]}"))
                continue
            if n == "F":
                if (py["regs"]["F"] ^ rs["regs"]["F"]) & 0xFC:
                    out.append(("reg:F-upper", f"F bits 2..7: python {py['regs']['F']:#x} rust {rs['regs']['F']:#x}"))
                continue  # C and Z are compared as FC / FZ
            out.append((f"reg:{n}", f"{n}: python {py['regs'][n]:#x} rust {rs['regs'][n]:#x}"))
    if (py["power"] != "running") != (rs["power"] != "running"):
        out.append(("power", f"low-power state python {py['power']} rust {rs['power']}"))
    pw = {a: v for a, v in py["writes"]}
    rw = {a: v for a, v in rs["writes"]}
    if pw != rw:
        # final contents of every location either core wrote
        diffs = []
        for a in sorted(set(pw) | set(rw)):
            if pw.get(a) != rw.get(a):
                diffs.append(a)
        # a location written by only one core still agrees if the other left the same value there:
        # that needs the pre-state; both sides report only what they wrote, so compare conservatively
        # through the caller (see final_mem_differs)
        out.append(("mem", f"written bytes differ at {[hex(a) for a in diffs[:6]]}: python "
                           f"{ {hex(a): pw.get(a) for a in diffs[:6]} } rust { {hex(a): rw.get(a) for a in diffs[:6]} }"))
    return out


def final_mem_differs(py, rs, mem: Dict[int, int], fill: int) -> bool:
    pw = {a: v for a, v in py["writes"]}
    rw = {a: v for a, v in rs["writes"]}
    for a in set(pw) | set(rw):
        base = mem.get(a)
        if base is None:
            base = rb.fill_byte(a, fill)
        if pw.get(a, base) != rw.get(a, base):
            return True
    return False


def judge_case(data: bytes, st, pc, rs_out, vb: VB, tag: str, py_out=None) -> str:
    regs, mem, fill = build_case(data, st, pc)
    py = py_out if py_out is not None else pycpu.run(regs, mem, fill)
    diffs = compare(py, rs_out)
    diffs = [d for d in diffs if d[0] != "mem" or final_mem_differs(py, rs_out, mem, fill)]
    if not diffs:
        return "agree"
    ins, _ = drv.py_decode(data, pc)
    text = drv.asm_str(ins.render()) if ins is not None else "?"
    extra = "/wrap-state" if st.get("wrap") else ""
    if ins is not None and any((getattr(o, "extra_hi", 0) or 0) & 0xF0 for o in _all_operands(ins)):
        extra += "/imm20-hi"
    if any(0x1000EC <= a <= 0x1000EE for a, _ in py.get("writes", []) + rs_out.get("writes", [])):
        extra += "/writes-bp-px-py"
    far = any(a >= 0x100100 for a, _ in py.get("writes", []) + rs_out.get("writes", []))
    if far:
        extra += "/ptr24"
    for field, desc in diffs:
        vb.add(f"C06/{field}/{tag}{extra}",
               f"{data.hex()} '{text}' @ {pc:#x} state bpx={st['bpx']} F={st['F']} fill={st['fill']:#x}: {desc}",
               lambda: {"bytes": data.hex(), "pc": pc, "state": {"bpx": list(st["bpx"]), "bg": st["bg"], "F": st["F"],
                                                                  "fill": st["fill"], "wrap": bool(st.get("wrap"))}})
    return "differ"


def _overlap_cases(st0):
    h = rb.harness()
    vb = VB()
    n = 0
    for code, rel in (("cb5150", "dst-above-src"), ("cb5051", "dst-below-src"), ("cf4f50", "dst-below-src"), ("cf504f", "dst-above-src"),
                      ("32cb5150", "dst-above-src"), ("32cf4f50", "dst-below-src")):
        d = bytes.fromhex(code)
        ins, _ = drv.py_decode(d + bytes(4), CODE)
        for cnt in (2, 3, 5):
            st = dict(st0)
            st["bg"] = dict(st0["bg"], I=cnt)
            regs, mem, fill = build_case(d, st, CODE)
            o = h.call(rs_req(regs, mem, fill))
            judge_case(d, st, CODE, o, vb, f"overlap/{ins.name()}/{rel}")
            n += 1
    return {"n": n, "shapes": n, "agree": n - len(vb.d), "vb": vb}


def _all_operands(ins):
    seen = []
    stack = list(getattr(ins, "_operands", []) or [])
    while stack:
        o = stack.pop()
        seen.append(o)
        for attr in ("imem", "reg", "offset", "value", "reg1", "reg2"):
            sub = getattr(o, attr, None)
            if sub is not None and hasattr(sub, "__dict__") and sub not in seen:
                stack.append(sub)
    return seen


def _mnemonic(data: bytes) -> str:
    ins, _ = drv.py_decode(data, CODE)
    return ins.name() if ins is not None else "?"


def _shard_shapes(args):
    pairs, tails, states, pcs_cf = args
    h = rb.harness()
    vb = VB()
    n = 0
    agree = 0
    nshapes = 0
    for pre, op in pairs:
        for tail in tails:
            shp = shapes.shapes_for(pre, op, tail)
            nshapes += len(shp)
            cases = []
            for d in shp:
                ins, _ = drv.py_decode(d, CODE)
                d = d[: ins.length()]
                # valid encodings only: must re-encode (C02's domain)
                pcs = [CODE] + (pcs_cf if op in CF_OPS else [])
                for st in states:
                    for pc in pcs:
                        cases.append((d, st, pc))
            for i in range(0, len(cases), 400):
                part = cases[i:i + 400]
                reqs = []
                for d, st, pc in part:
                    regs, mem, fill = build_case(d, st, pc)
                    reqs.append(rs_req(regs, mem, fill))
                outs = h.batch(reqs)
                for (d, st, pc), o in zip(part, outs):
                    tag = f"{_mnemonic(d)}/op={op:02X}/{'pre' if pre is not None else 'none'}"
                    r = judge_case(d, st, pc, o, vb, tag)
                    n += 1
                    if r == "agree":
                        agree += 1
    return {"n": n, "agree": agree, "shapes": nshapes, "vb": vb}


# ---- programs -------------------------------------------------------------------------------

PROGRAM_PALETTE_HEX = [
    "00", "0812", "0a3412", "0c563402", "4003", "4811", "5005", "5807", "6402", "7055",
    "8010", "a020", "c81020", "cc1055", "4110 01".replace(" ", ""), "4210", "4310", "5410 20".replace(" ", ""),
    "6c00", "6c04", "7c00", "7d10", "e4", "e6", "f4", "f6", "ee", "97", "9f",
    "2800", "3800", "2a", "3a", "2e", "3e", "4f", "5f", "9004", "9024", "9034", "908405",
    "b004", "b024", "b034", "98001 0".replace(" ", ""), "f010 0020".replace(" ", ""), "e81004",
    "cb1020", "c01020", "c31020", "d4 10 20".replace(" ", ""), "dc10563402", "fc10", "ec10", "4402", "4424",
    "ed24", "fd24", "dd", "1200", "1800", "1a00", "32c81020", "25c81020", "3080 10".replace(" ", ""),
    "de", "df", "32ccf8ff", "32ccfe00",      # HALT, OFF (also executed while already in that state), MV (USR),FF, MV (SSR),00
]


def _prog_bytes(seq: List[bytes]) -> bytes:
    return b"".join(seq)


def program_divergence(py, o, mem, fill, nsteps):
    """First divergence between the per-step traces of the two cores (None when they agree)."""
    pt, rt = py.get("trace", []), o.get("trace", [])
    bad = None
    for k in range(min(len(pt), len(rt))):
        for name in pycpu.ARCH_REGS:
            if pt[k][name] != rt[k][name] and not (name == "F" and not ((pt[k]["F"] ^ rt[k]["F"]) & 0xFC)):
                bad = (k, name, pt[k][name], rt[k][name])
                break
        if bad:
            break
    if bad is None and len(pt) != len(rt):
        bad = (min(len(pt), len(rt)), "steps-executed", len(pt), len(rt))
    if bad is None and final_mem_differs(py, o, mem, fill):
        bad = (nsteps, "memory", 0, 0)
    return bad


def _shard_flow(args):
    """Control-flow scripts (mc/flow.py): calls, far calls, jumps, returns, software interrupt, pushes in every order."""
    from .. import flow
    seqs, st = args
    h = rb.harness()
    vb = VB()
    n = 0
    built = []
    for seq in seqs:
        r = flow.build(seq, st)
        if r is not None:
            built.append((seq, r))
    for i in range(0, len(built), 200):
        part = built[i:i + 200]
        outs = h.batch([rs_req(r[0], r[1], r[2], steps=len(seq), trace=True) for seq, r in part])
        for (seq, (regs, mem, fill, pcs)), o in zip(part, outs):
            py = pycpu.run(regs, mem, fill, steps=len(seq), trace=True)
            n += 1
            wit = {"flow": list(seq), "state": st}
            if (o.get("panic") or bool(py.get("err")) != bool(o.get("err"))) and not any(t["F"] & 0xFC for t in o.get("trace", [])):
                vb.add("C06/flow/error-one-side/" + flow.name(seq), f"script {flow.name(seq)}: python err={py.get('err')} rust={o.get('err') or o.get('panic')}", wit)
                continue
            # F bits 2..7 (kept by the Rust core, dropped by the Python core: finding F-C06-f-upper-bits) are masked here so
            # that they do not hide what happens afterwards; a divergence that follows such a difference is labelled
            rt = o.get("trace", [])
            tainted_at = next((k for k, t in enumerate(rt) if t["F"] & 0xFC), None)
            for t in rt:
                t["F"] &= 0x03
            for t in py.get("trace", []):
                t["F"] &= 0x03
            bad = program_divergence(py, o, mem, fill, len(seq))
            if bad and tainted_at is not None and tainted_at < bad[0]:
                vb.add(f"C06/flow/after-f-upper-bits/{seq[min(bad[0], len(seq) - 1)]}",
                       f"control-flow script {list(seq)} diverges at step {bad[0]} after the Rust core restored F bits 2..7 at step {tainted_at}", wit)
                continue
            if bad:
                k, nm, a, b = bad
                fld = "reg:" + nm if nm in pycpu.ARCH_REGS else nm
                ctxs = flow.name(seq[:k + 1]) if k < len(seq) else flow.name(seq)
                vb.add(f"C06/flow/{fld}/{ctxs}", f"control-flow script {list(seq)} laid out at {[hex(x) for x in pcs]} diverges at step {k} "
                       f"({seq[min(k, len(seq) - 1)]}): {nm} python {a:#x} rust {b:#x}", wit)
    return {"n": n, "vb": vb}


def _shard_programs(args):
    seqs, st, steps = args
    h = rb.harness()
    vb = VB()
    n = 0
    for i in range(0, len(seqs), 200):
        part = seqs[i:i + 200]
        reqs = []
        for seq in part:
            code = _prog_bytes(seq) + bytes([0x00] * 4)
            regs, mem, fill = build_case(code, st, CODE)
            reqs.append(rs_req(regs, mem, fill, steps=len(seq) if steps is None else steps, trace=True, ignore_power=steps is None))
        outs = h.batch(reqs)
        for seq, o in zip(part, outs):
            code = _prog_bytes(seq) + bytes([0x00] * 4)
            regs, mem, fill = build_case(code, st, CODE)
            nsteps = len(seq) if steps is None else steps
            py = pycpu.run(regs, mem, fill, steps=nsteps, trace=True, ignore_power=steps is None)
            n += 1
            if o.get("panic") or bool(py.get("err")) != bool(o.get("err")):
                vb.add("C06/program/error-one-side/" + "+".join(_mnemonic(x) for x in seq), f"program {[s.hex() for s in seq]}: python err={py.get('err')} rust={o.get('err') or o.get('panic')}",
                       {"program": [s.hex() for s in seq], "state": st, "steps": nsteps})
                continue
            # F bits 2..7 (finding F-C06-f-upper-bits) are masked so that they do not hide what follows; a divergence after
            # such a difference is labelled as its consequence
            rt = o.get("trace", [])
            tainted_at = next((k for k, t in enumerate(rt) if t["F"] & 0xFC), None)
            for t in rt:
                t["F"] &= 0x03
            for t in py.get("trace", []):
                t["F"] &= 0x03
            bad = program_divergence(py, o, mem, fill, nsteps)
            mns = "+".join(_mnemonic(x) for x in seq) if steps is None else "loop:" + "+".join(_mnemonic(x) for x in seq)
            if bad and tainted_at is not None and tainted_at < bad[0]:
                vb.add(f"C06/program/after-f-upper-bits/{mns}", f"program {[s.hex() for s in seq]} diverges at step {bad[0]} after the Rust core "
                       f"restored F bits 2..7 at step {tainted_at}", {"program": [s.hex() for s in seq], "state": st, "steps": nsteps})
                continue
            if bad:
                k, name, a, b = bad
                fld = "reg" if name in pycpu.ARCH_REGS else name
                vb.add(f"C06/program/{fld}/{mns}",
                       f"program {[s.hex() for s in seq]} diverges at step {k}: {name} python {a:#x} rust {b:#x}",
                       {"program": [s.hex() for s in seq], "state": st, "steps": nsteps})
    return {"n": n, "vb": vb}


COUNTED_MN = ("MVL", "MVLD", "EXL", "ADCL", "SBCL", "DADL", "DSBL", "DSLL", "DSRL")


def _shard_same(args):
    """Two instructions that share prefix and opcode but differ in their selector byte, back to back (both orders): decoder state
    shared between instances of one opcode must not leak from the instruction that follows into the one being executed.
    Pairs whose members already disagree when run alone in this state belong to the single-instruction part and are skipped."""
    pairs, tail, st = args
    h = rb.harness()
    vb = VB()
    n = skipped = 0

    def both(seq, steps=None):
        steps = len(seq) if steps is None else steps
        code = _prog_bytes(seq) + bytes([0x00] * 4)
        regs, mem, fill = build_case(code, st, CODE)
        o = h.call(rs_req(regs, mem, fill, steps=steps, trace=True, ignore_power=True))
        py = pycpu.run(regs, mem, fill, steps=steps, trace=True, ignore_power=True)
        if o.get("panic") or py.get("err") or o.get("err"):
            return ("error", 0, 0, 0)
        for t in o.get("trace", []):
            t["F"] &= 0x03
        for t in py.get("trace", []):
            t["F"] &= 0x03
        return program_divergence(py, o, mem, fill, steps)

    alone: Dict[bytes, Any] = {}
    for pre, op in pairs:
        shp = []
        for d in shapes.shapes_for(pre, op, tail):
            ins, _ = drv.py_decode(d, CODE)
            shp.append(d[: ins.length()])
        if len(shp) < 2:
            continue
        picks = sorted({1, len(shp) // 2, len(shp) - 1})
        for j in picks:
            for seq in ([shp[0], shp[j]], [shp[j], shp[0]]):
                for x in seq:
                    if x not in alone:
                        alone[x] = both([x])
                if any(alone[x] is not None for x in seq):
                    skipped += 1
                    continue
                n += 1
                # a counted instruction leaves I = 0, and the cores are known to disagree on counted instructions entered with I = 0:
                # there only the first instruction is executed (the second one is still what follows it in memory)
                bad = both(seq, 1 if _mnemonic(seq[0]) in COUNTED_MN else None)
                if bad:
                    k, name, a, b = bad
                    fld = "reg" if name in pycpu.ARCH_REGS else name
                    vb.add(f"C06/program/same-opcode/{fld}/{_mnemonic(seq[0])}/op={op:02X}/{'pre' if pre is not None else 'none'}",
                           f"program {[x.hex() for x in seq]} (each instruction agrees when run alone) diverges at step {k}: {name} python {a:#x} rust {b:#x}"
                           if name != "error" else f"program {[x.hex() for x in seq]}: one core reports an error",
                           {"program": [x.hex() for x in seq], "state": st, "steps": len(seq), "same_opcode": True})
    return {"n": n, "skipped": skipped, "vb": vb}


LOOPS = [
    # 1000 MV A,5 / 1002 DEC A / 1004 JRNZ -4 / 1006 JR -2 (self)
    ["0805", "7c00", "1b04", "1302"],
    # 1000 MV I,2 / 1003 MVL (10),(20) / 1006 JR -8
    ["0b0200", "cb1020", "1308"],
    # 1000 CALL 1006 / 1003 JR -5 / 1005 NOP / 1006 RET
    ["040610", "1305", "00", "06"],
    # 1000 PUSHU A / 1001 POPU A / 1002 ADD A,1 / 1004 JRNC -6 / 1006 JR -2
    ["28", "38", "4001", "1f06", "1302"],
    # 1000 CALLF 01008 / 1004 JR -6 / 1006 NOP NOP / 1008 PUSHS F / 1009 POPS F / 100A RETF
    ["05081000", "1306", "00", "00", "4f", "5f", "07"],
    # 1000 CALL 1000 (unbounded recursion: call depth grows by one per step)
    ["040010"],
    # 1000 CALLF 01000
    ["05001000"],
]


def run(ctx) -> None:
    rb.build()
    states = states_for(ctx.thorough, ctx.seed)
    # main tail: every byte that can become the top byte of a 20-bit immediate has a zero high nibble;
    # the second (thorough) tail exercises the ignored high nibble, reported under ".../imm20-hi"
    tails = [bytes.fromhex("3404050607")] if not ctx.thorough else [bytes.fromhex("3404050607"), drv.TAILS["mix"]]
    pcs_cf = [] if not ctx.thorough else [0x1FFFD, 0xFFFF0]
    pairs = [(p, op) for p in drv.PRE_CHOICES for op in range(256) if not (p is None and op in drv.PRE_BYTES)]
    res = pmap(_shard_shapes, [(s, tails, states, pcs_cf) for s in chunks(pairs, nproc() * 4)])
    if not ctx.thorough:
        # quick tier: only the control-flow opcodes at the end of a 64 KiB page (the instruction straddles or touches the boundary)
        cf_ops = [0x02, 0x03, 0x04, 0x05, 0x06, 0x07, 0x10, 0x11, 0x12, 0x13, 0x14, 0x15, 0x16, 0x17, 0x18, 0x19, 0x1A, 0x1B, 0x1C, 0x1D, 0x1E, 0x1F, 0xFE, 0x01]
        res += pmap(_shard_shapes, [([(p, op) for op in c], tails[:1], states[:1], [0x1FFFD, 0x1FFFE, 0xFFFF0]) for p in (None, 0x32)
                                    for c in chunks(cf_ops, 4)])
    # opcodes with a displacement byte ([r3+-n], [(m)+-n]; none of them carries a 20-bit immediate): operand bytes 0x80 and above
    disp_ops = list(range(0x90, 0x97)) + list(range(0xB0, 0xB7)) + list(range(0x98, 0x9F)) + list(range(0xB8, 0xBF)) + \
        [0xE0, 0xE1, 0xE2, 0xE8, 0xE9, 0xEA, 0xF0, 0xF1, 0xF2, 0xF8, 0xF9, 0xFA, 0x56, 0x5E, 0xE3, 0xEB]
    wrap_st = [{"bpx": BPX[1], "bg": WRAP_BG, "F": 0, "fill": 0x10A, "wrap": True}]      # pointers a few bytes below the top of the 20-bit space
    res += pmap(_shard_shapes, [([(p, op) for op in c], [bytes.fromhex("b484858687")], states[:1] + wrap_st, []) for p in (None, 0x32) for c in chunks(disp_ops, nproc() // 2)])
    # block moves whose source and destination runs overlap by all but one element, in both directions, I = 2..5 (own signatures,
    # so that the direction in which the two cores already disagree does not hide the other one)
    ov = _overlap_cases(states[0])
    res.append(ov)
    # register-only instructions at the boundary values of every register width (no memory operand, so no wrap questions)
    bnd = [{"bpx": BPX[0], "bg": bg, "F": f, "fill": 0x10B} for f, bg in
           ((0, {"BA": 0xFFFF, "I": 0xFFFF, "X": 0xFFFFF, "Y": 0xFFFFF, "U": 0xFFFFF, "S": 0xFFFFF}),
            (3, {"BA": 0x0000, "I": 0x0000, "X": 0x00000, "Y": 0x00000, "U": 0x00000, "S": 0x00000}),
            (1, {"BA": 0x7FFF, "I": 0x8000, "X": 0x7FFFF, "Y": 0x80000, "U": 0x0FFFF, "S": 0x10000}),
            (2, {"BA": 0x00FF, "I": 0x0100, "X": 0x000FF, "Y": 0x0FF00, "U": 0xF0000, "S": 0x00001}))]
    reg_only = [(None, op) for op in (0x6C, 0x7C, 0x44, 0x45, 0x46, 0x4C, 0x4D, 0x4E, 0xED, 0xFD, 0xEE, 0xE4, 0xE6, 0xF4, 0xF6)]
    res += pmap(_shard_shapes, [(c, tails[:1], bnd, []) for c in chunks(reg_only, nproc())])
    ctx.log(f"shapes done: {sum(r['n'] for r in res)} executions on both cores")
    pal = [bytes.fromhex(x) for x in PROGRAM_PALETTE_HEX]
    pal = [p for p in pal if drv.py_decode(p + b"\x00" * 6, CODE)[0] is not None]
    seqs = [[a, b] for a in pal for b in pal]
    # low-power instructions executed again after the status registers they rewrite were changed by the program
    lp = [bytes.fromhex(x) for x in ("de", "df", "32ccf8ff", "32ccf800", "32ccfeff", "32ccfe00")]
    seqs += [[a, b, c] for a in lp[:2] for b in lp[2:] for c in lp[:2]] + [[a, b, c, d] for a in lp[:2] for b in lp[2:4] for c in lp[4:] for d in lp[:2]]
    if ctx.thorough:
        sub = pal[::2]
        seqs += [[a, b, c] for a in sub for b in sub for c in sub]
    st_p = {"bpx": BPX[0], "bg": REGS_BG[0], "F": 1, "fill": 0x103}
    st_p2 = {"bpx": BPX[1], "bg": REGS_BG[1], "F": 2, "fill": 0x104}
    resP = pmap(_shard_programs, [(s, st, None) for st in (st_p, st_p2) for s in chunks(seqs, nproc())])
    so_pairs = [(p, op) for p in (None, 0x32) for op in range(256) if op not in CF_OPS and op not in drv.PRE_BYTES and op not in (0xDE, 0xDF, 0xEF, 0xFF)]
    resS = pmap(_shard_same, [(c, tails[0], st_p) for c in chunks(so_pairs, nproc() * 2)])
    ctx.coverage["same_opcode_pairs"] = {"compared": sum(r["n"] for r in resS), "skipped_member_diverges_alone": sum(r["skipped"] for r in resS)}
    loops = [[bytes.fromhex(x) for x in lp] for lp in LOOPS]
    resL = pmap(_shard_programs, [([lp], st_p, 64 if ctx.thorough else 24) for lp in loops])
    from .. import flow
    fl = list(flow.scripts(5 if ctx.thorough else 4))
    resF = pmap(_shard_flow, [(c, st_p) for c in chunks(fl, nproc() * 2)])
    ctx.coverage["control_flow_scripts"] = {"max_length": 5 if ctx.thorough else 4, "alphabet": flow.OPS, "scripts": len(fl),
                                            "laid_out_and_compared": sum(r["n"] for r in resF)}
    for r in res + resP + resL + resF + resS:
        ctx.merge_bucket(r["vb"])
    n = sum(r["n"] for r in res)
    ctx.level = "exploration"
    ctx.coverage.update({
        "evaluations": n + sum(r["n"] for r in resP + resL),
        "distinct_nontrivial": n,
        "single_instruction_cases": n,
        "structural_shapes": sum(r["shapes"] for r in res),
        "agreeing_cases": sum(r["agree"] for r in res),
        "programs": sum(r["n"] for r in resP + resL),
        "states_per_shape": len(states),
        "exhaustive": True,
        "rule": ("every structurally distinct accepted encoding (16 prefix choices x 256 opcodes x every second byte when "
                 "it selects registers/modes, 6-value palette when it is an immediate) x "
                 f"{len(tails)} operand tails x {len(states)} architectural states (x{1 + len(pcs_cf)} PCs for control flow), "
                 "executed once on Emulator and once on LlamaExecutor from the same registers/flags/memory; compared: "
                 "registers, C/Z, PC, low-power state, bytes consumed, final contents of every written location. "
                 f"Programs: all ordered pairs{' and a triple cube' if ctx.thorough else ''} of a "
                 f"{len(pal)}-instruction palette in 2 states + {len(loops)} loop skeletons, compared after every step. "
                 "distinct_nontrivial = single-instruction cases executed on both cores (each a distinct (encoding,state))."),
        "samples": [{"bytes": "32c81020", "state": {"bpx": list(BPX[0]), "F": 1}},
                    {"program": [s.hex() for s in seqs[70]]}, {"loop": LOOPS[0]}],
    })
    ctx.assumptions += ["both cores run on the same flat 24-bit byte map with identical default fill; device windows are C11/C12's business",
                        "I is kept in 1..3 so counted instructions terminate quickly",
                        "F bits other than C/Z are not compared (not architectural)"]


def replay(ctx, w) -> Optional[str]:
    rb.build()
    h = rb.harness()
    vb = VB()
    if "flow" in w:
        st = w["state"]
        st["bpx"] = tuple(st["bpx"])
        r = _shard_flow(([tuple(w["flow"])], st))
        for sig, (cnt, wl) in r["vb"].d.items():
            return wl[0][0]
        return None
    if "program" in w:
        seq = [bytes.fromhex(x) for x in w["program"]]
        st = w["state"]
        st["bpx"] = tuple(st["bpx"])
        _ = _shard_programs(([seq], st, None if w["steps"] == len(seq) else w["steps"]))
        for sig, (cnt, wl) in _["vb"].d.items():
            return wl[0][0]
        return None
    data = bytes.fromhex(w["bytes"])
    st = dict(w["state"])
    st["bpx"] = tuple(st["bpx"])
    regs, mem, fill = build_case(data, st, w["pc"])
    o = h.call(rs_req(regs, mem, fill))
    judge_case(data, st, w["pc"], o, vb, "replay")
    for sig, (cnt, wl) in vb.d.items():
        return wl[0][0]
    return None
