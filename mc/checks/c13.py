"""C13 — timers fire exactly on period boundaries however time advances.

Model checking over tick histories of the real TimerScheduler (through PCE500Emulator._tick_timers,
which also sets ISR) and the real Rust TimerContext::tick_timers, against a reference timer pair:
  closure : for small period pairs, BFS over {tick +gap, reset, snapshot/restore, clear ISR} to closure
            of the canonical state (next_mti - cycle, next_sti - cycle, ISR bits 0/1)
  default : default periods (2048, 512000): all directed gap sequences of length <= L over
            {1, p-1, p, p+1, 2p, 3p+1} for each timer
  percycle: ticked every cycle for 4 periods: fire count == floor((c-base)/p) exactly
"""
from __future__ import annotations

from typing import Any, Dict, List, Optional, Tuple

from ..core import VB, nproc
from ..par import pmap, chunks
from ..spec.timers import RefTimers
from .. import rustbridge as rb

from pce500.scheduler import TimerScheduler, TimerSource
from pce500.emulator import PCE500Emulator

ISR_ADDR = 0x1000FC


def _mk_py(mti, sti, enabled):
    emu = PCE500Emulator(save_lcd_on_exit=False)
    emu._scheduler = TimerScheduler(mti, sti, enabled)
    emu.memory.write_byte(ISR_ADDR, 0)
    return emu


def run_py(cfg, hist) -> List[Any]:
    """Replay hist on the real Python scheduler; returns per-event observations."""
    mti, sti, enabled = cfg
    emu = _mk_py(mti, sti, enabled)
    cyc = 0
    out = []
    for ev in hist:
        kind = ev[0]
        if kind == "tick":
            cyc += ev[1]
            emu.cycle_count = cyc
            before = emu.memory.read_byte(ISR_ADDR) & 0xFF
            n_m, n_s = emu._scheduler.next_mti, emu._scheduler.next_sti
            emu._tick_timers()
            after = emu.memory.read_byte(ISR_ADDR) & 0xFF
            s = emu._scheduler
            fm = s.next_mti != n_m
            fs = s.next_sti != n_s
            out.append({"mti": fm, "sti": fs, "next_mti": s.next_mti, "next_sti": s.next_sti, "isr": after & 3,
                        "cycle": cyc})
        elif kind == "reset":
            emu._scheduler.reset(cycle_base=cyc)
            out.append({"next_mti": emu._scheduler.next_mti, "next_sti": emu._scheduler.next_sti, "cycle": cyc})
        elif kind == "mreset":
            # whole-machine reset: the cycle counter restarts at 0 and both timers are re-armed one period from there
            emu.cycle_count = cyc
            emu.reset()
            cyc = 0
            out.append({"next_mti": emu._scheduler.next_mti, "next_sti": emu._scheduler.next_sti, "cycle": cyc, "counter": int(emu.cycle_count)})
        elif kind in ("snap", "snap1"):
            # the real save_snapshot -> fresh emulator -> load_snapshot path
            import contextlib
            import io
            import os
            path = f"/verif/.build/snap/c13_{os.getpid()}.pcsnap"
            os.makedirs("/verif/.build/snap", exist_ok=True)
            # "snap1": the machine's counter has already moved one cycle past the last tick (as between two steps)
            emu.cycle_count = cyc + (1 if kind == "snap1" else 0)
            emu.save_snapshot(path)
            # the machine the bundle is loaded into was built with other periods: everything about the timers must come from the bundle
            emu = _mk_py(mti * 2 + 3, sti * 3 + 1, enabled)
            with contextlib.redirect_stdout(io.StringIO()):
                emu.load_snapshot(path)
            out.append({"next_mti": emu._scheduler.next_mti, "next_sti": emu._scheduler.next_sti, "cycle": cyc})
        elif kind == "clr":
            emu.memory.write_byte(ISR_ADDR, emu.memory.read_byte(ISR_ADDR) & ~3 & 0xFF)
            out.append({"cycle": cyc})
    return out


def rs_req(cfg, hist):
    mti, sti, enabled = cfg
    ops: List[Dict[str, Any]] = [{"new": [enabled, mti, sti]}]
    cyc = 0
    for ev in hist:
        if ev[0] == "tick":
            cyc += ev[1]
            ops.append({"tick": cyc})
        elif ev[0] == "reset":
            ops.append({"reset": cyc})
        elif ev[0] in ("snap", "snap1"):
            ops.append({"snap": cyc + (1 if ev[0] == "snap1" else 0)})
        elif ev[0] == "mreset":
            cyc = 0
            ops.append({"mreset": 1})
        elif ev[0] == "clr":
            ops.append({"set_isr": 0})
    return {"cmd": "timer", "script": ops}


def run_ref(cfg, hist):
    mti, sti, enabled = cfg
    r = RefTimers(mti, sti, enabled)
    cyc = 0
    out = []
    for ev in hist:
        if ev[0] == "tick":
            cyc += ev[1]
            fm, fs = r.tick(cyc)
            out.append({"mti": fm, "sti": fs, "isr": r.isr, "cycle": cyc,
                        "next_mti": r.m.next() if r.m.active() else None,
                        "next_sti": r.s.next() if r.s.active() else None})
        elif ev[0] == "reset":
            r.m.reset(cyc)
            r.s.reset(cyc)
            out.append({"cycle": cyc})
        elif ev[0] in ("snap", "snap1"):
            out.append({"cycle": cyc, "next_mti": r.m.next() if r.m.active() else None, "next_sti": r.s.next() if r.s.active() else None})
        elif ev[0] == "mreset":
            cyc = 0
            r.m.reset(0)
            r.s.reset(0)
            r.isr = 0
            out.append({"cycle": 0, "next_mti": r.m.next() if r.m.active() else None, "next_sti": r.s.next() if r.s.active() else None, "mreset": True})
        elif ev[0] == "clr":
            r.isr = 0
            out.append({"cycle": cyc})
    return out, r


class _Suffixed:
    """Signatures of histories whose counter has passed 2^31 carry a suffix, so that what happens out there (32-bit fields in
    snapshot formats) is never filed under, nor hides, a finding about ordinary cycle counts."""
    def __init__(self, vb: VB, suffix: str) -> None:
        self.vb, self.suffix = vb, suffix

    def add(self, sig, what, wit):
        self.vb.add(sig + self.suffix, what, wit)


def judge(cfg, hist, py, rs, vb: VB):
    if any(e[0] == "tick" and e[1] >= 2 ** 31 for e in hist):
        vb = _Suffixed(vb, "/counter-beyond-2^31")       # type: ignore[assignment]
    ref, r = run_ref(cfg, hist)
    wit = lambda: {"cfg": list(cfg), "history": [list(e) for e in hist]}  # noqa: E731
    tag = f"mti={cfg[0]}/sti={cfg[1]}/en={int(cfg[2])}" if max(cfg[0], cfg[1]) <= 7 else "default-periods"
    rs_out = rs["out"][1:] if rs and "out" in rs else None
    if rs is not None and rs_out is None:
        vb.add("C13/rust-error", f"rust harness: {rs}", wit)
    for i, ev in enumerate(hist):
        if ev[0] == "mreset":
            obs = py[i]
            for t, nk in (("mti", "next_mti"), ("sti", "next_sti")):
                if obs is not None and ref[i][nk] is not None and obs.get(nk) != ref[i][nk]:
                    vb.add(f"C13/python/machine-reset-leaves-stale-target/{t}", f"python cfg={cfg}: after {hist[:i + 1]} the counter is "
                           f"{obs.get('counter')} and {nk}={obs.get(nk)}; one period after the restart would be {ref[i][nk]}", wit)
        if ev[0] in ("snap", "snap1"):
            # restoring must bring back the saved targets (the states after it are merged with the unsnapshotted ones)
            for impl, obs in (("python", py[i]), ("rust", rs_out[i] if rs_out else None)):
                for t, nk in (("mti", "next_mti"), ("sti", "next_sti")):
                    if obs is not None and ref[i][nk] is not None and obs.get(nk) != ref[i][nk]:
                        vb.add(f"C13/{impl}/snapshot-changes-next-target/{t}", f"{impl} cfg={cfg}: after {hist[:i + 1]} {nk}={obs.get(nk)}, "
                               f"before the snapshot it was {ref[i][nk]}", wit)
        if ev[0] != "tick":
            continue
        want = ref[i]
        for impl, obs in (("python", py[i]), ("rust", rs_out[i] if rs_out else None)):
            if obs is None:
                continue
            for t in ("mti", "sti"):
                if bool(obs[t]) != bool(want[t]):
                    kind = "spurious-or-double-fire" if obs[t] else "missed-boundary"
                    vb.add(f"C13/{impl}/{kind}/{t}",
                           f"{impl} cfg={cfg}: tick at cycle {want['cycle']} ({hist[:i + 1]}): {t} fired={obs[t]}, "
                           f"reference fired={want[t]}", wit)
            if (obs["isr"] & 3) != (want["isr"] & 3):
                vb.add(f"C13/{impl}/isr-bits", f"{impl} cfg={cfg}: after {hist[:i + 1]} ISR&3={obs['isr'] & 3} expected {want['isr'] & 3}", wit)
            for t, nk in (("mti", "next_mti"), ("sti", "next_sti")):
                if want[nk] is not None and not (obs[nk] > want["cycle"]):
                    vb.add(f"C13/{impl}/next-target-not-in-future/{t}",
                           f"{impl} cfg={cfg}: after tick at {want['cycle']} {nk}={obs[nk]} ({hist[:i + 1]})", wit)
                if want[nk] is not None and obs[nk] != want[nk]:
                    vb.add(f"C13/{impl}/next-target-off-boundary/{t}",
                           f"{impl} cfg={cfg}: after tick at {want['cycle']} {nk}={obs[nk]}, next boundary is {want[nk]} ({hist[:i + 1]})", wit)
    # canonical key from the reference (distance to next boundaries, isr)
    cyc = ref[-1]["cycle"] if ref else 0
    key = (r.m.next() - cyc if r.m.active() else -1, r.s.next() - cyc if r.s.active() else -1, r.isr)
    return key


def _closure(args):
    cfg, gaps, specials, max_depth = args
    h = rb.harness()
    vb = VB()
    seen = {}
    frontier = [()]
    seen[judge(cfg, (), [], h.call(rs_req(cfg, ())), vb)] = ()
    trans = 0
    depth = 0
    events = [("tick", g) for g in gaps] + [(s,) for s in specials]
    last = ()
    while frontier and depth < max_depth:
        cand = [hh + (e,) for hh in frontier for e in events]
        nxt = []
        for i in range(0, len(cand), 1000):
            part = cand[i:i + 1000]
            outs = h.batch([rs_req(cfg, x) for x in part])
            for hist, o in zip(part, outs):
                py = run_py(cfg, hist)
                k = judge(cfg, hist, py, o, vb)
                trans += 1
                if k not in seen:
                    seen[k] = hist
                    nxt.append(hist)
                    last = hist
        frontier = nxt
        depth += 1
    return {"cfg": cfg, "states": len(seen), "transitions": trans, "depth": depth, "closed": not frontier,
            "vb": vb, "sample": [list(e) for e in last]}


def _after_identity(args):
    """Histories that continue after a snapshot / machine reset (in the closure BFS such histories are merged with the
    history before the event, because the reference state is the same): ticks, the event, ticks again."""
    import itertools
    cfg, = args
    h = rb.harness()
    vb = VB()
    gs = sorted({1, 2, max(cfg[0], cfg[1], 1)})
    n = 0
    hists = []
    for npre in (1, 2):
        for pre in itertools.product(gs, repeat=npre):
            for ev in ("snap", "snap1", "mreset"):
                for post in itertools.product(gs, repeat=2):
                    hists.append(tuple(("tick", g) for g in pre) + ((ev,),) + tuple(("tick", g) for g in post))
    # the same after one gap that takes the counter past 2^31 ("arbitrary gaps": about a quarter of an hour of emulated time)
    # (only for periods of at least 1024 cycles: the Python scheduler catches up one period at a time)
    for ev in (("snap", "snap1") if cfg[2] and min([p for p in cfg[:2] if p] or [0]) >= 1024 else ()):
        for post in itertools.product(gs, repeat=2):
            hists.append((("tick", 2 ** 31 + 7), ("tick", 1)) + (((ev,),) if ev else ()) + tuple(("tick", g) for g in post) + (("tick", 1),))
    outs = h.batch([rs_req(cfg, x) for x in hists])
    for hist, o in zip(hists, outs):
        judge(cfg, hist, run_py(cfg, hist), o, vb)
        n += 1
    return {"n": n, "vb": vb}


def _directed(args):
    cfg, seqs = args
    h = rb.harness()
    vb = VB()
    n = 0
    for i in range(0, len(seqs), 500):
        part = seqs[i:i + 500]
        outs = h.batch([rs_req(cfg, x) for x in part])
        for hist, o in zip(part, outs):
            judge(cfg, hist, run_py(cfg, hist), o, vb)
            n += 1
    return {"n": n, "vb": vb}


def _percycle(args):
    cfg, ncycles = args
    h = rb.harness()
    vb = VB()
    hist = tuple(("tick", 1) for _ in range(ncycles))
    py = run_py(cfg, hist)
    rs = h.call(rs_req(cfg, hist))
    judge(cfg, hist, py, rs, vb)
    # fire counts
    for impl, obs in (("python", py), ("rust", rs["out"][1:])):
        for t, p in (("mti", cfg[0]), ("sti", cfg[1])):
            cnt = sum(1 for o in obs if o[t])
            want = (ncycles // p) if (p > 0 and cfg[2]) else 0
            if cnt != want:
                vb.add(f"C13/{impl}/per-cycle-count/{t}", f"{impl} cfg={cfg}: {cnt} fires in {ncycles} cycles, expected {want}",
                       {"cfg": list(cfg), "history": [["tick", 1]] * ncycles})
    # Rust: the same per-cycle run with the instruction-boundary call (finalize_instruction) after every tick, as a
    # host stepping one-cycle instructions does: boundaries must not move
    ops = [{"new": [cfg[2], cfg[0], cfg[1]]}]
    for c in range(1, ncycles + 1):
        ops += [{"tick": c}, {"finalize": c}]
    out = h.call({"cmd": "timer", "script": ops})["out"][1:]
    ticks = out[0::2]
    for t, p in (("mti", cfg[0]), ("sti", cfg[1])):
        fired_at = [c + 1 for c, o in enumerate(ticks) if o[t]]
        want_at = [c for c in range(1, ncycles + 1) if p > 0 and cfg[2] and c % p == 0]
        if fired_at != want_at:
            vb.add(f"C13/rust/per-cycle-with-instruction-boundaries/{t}", f"rust cfg={cfg}: ticked every cycle with finalize_instruction after each tick, "
                   f"{t} fired at {fired_at[:6]}.., expected {want_at[:6]}..", {"cfg": list(cfg), "finalize": True, "n": ncycles})
    return {"n": ncycles, "vb": vb}


def period_change_cases():
    """(which timer, old period, new period, the other timer's period, cycles ticked before the change)."""
    return [(w, po, pn, other, c0) for w in ("mti", "sti") for po in (0, 3) for pn in (0, 2, 3, 5, 7) for other in (0, 4)
            for c0 in (0, 1, 2, 3, 6, 10)]


def _period_change(args):
    """A period assigned at run time (the emulator's own `_timer_*_period` setters write the scheduler's public field).
    The statement does not say where the boundaries lie after such a change, so no reference is used; judged are only its
    invariants, on every one of W per-cycle ticks after the change: an active timer's next target is strictly in the future
    after every tick, it fires exactly when its target is reached, a firing sets its status bit, the targets move by one
    period, the number of firings in the window is within [W/p - 1, ceil(W/p) + 1], and a zero-period timer never fires."""
    (cases,) = args
    vb = VB()
    n = 0
    W = 40
    for (which, po, pn, other, c0) in cases:
        cfg = (po, other, True) if which == "mti" else (other, po, True)
        emu = _mk_py(*cfg)
        sch = emu._scheduler
        bit = 1 if which == "mti" else 2
        cyc = 0
        for _ in range(c0):
            cyc += 1
            emu.cycle_count = cyc
            emu._tick_timers()
        setattr(emu, f"_timer_{which}_period", pn)
        fires = 0
        bad = None
        for _ in range(W):
            cyc += 1
            emu.cycle_count = cyc
            emu.memory.write_byte(ISR_ADDR, 0)
            before = getattr(sch, f"next_{which}")
            emu._tick_timers()
            after = getattr(sch, f"next_{which}")
            isr = emu.memory.read_byte(ISR_ADDR) & 3
            fired = after != before
            n += 1
            if pn == 0:
                if fired or isr & bit:
                    bad = ("zero-period-fires", f"cycle {cyc}: a timer with period 0 fired")
            else:
                if after <= cyc:
                    bad = ("target-not-in-future", f"cycle {cyc}: next target {after} is not in the future")
                elif fired != (before <= cyc):
                    bad = ("fires-off-target", f"cycle {cyc}: target {before}, fired={fired}")
                elif fired and not (isr & bit):
                    bad = ("status-bit-missing", f"cycle {cyc}: fired without its status bit")
                elif fired and fires >= 1 and after - before != pn:
                    bad = ("target-step", f"cycle {cyc}: target moved {before}->{after}, period {pn}")
                elif bool(isr & bit) != fired:
                    bad = ("status-without-fire", f"cycle {cyc}: status bit {isr & bit} fired={fired}")
            fires += fired
            if bad:
                break
        # between W//p - 1 and ceil(W/p) + 1: the boundaries inside the window, plus at most one catch-up firing for a target
        # that the change left in the past
        if not bad and pn and not (W // pn - 1 <= fires <= -(-W // pn) + 1):
            bad = ("fire-count", f"{fires} firings in {W} cycles")
        if bad:
            vb.add(f"C13/python/period-change/{bad[0]}/{which}",
                   f"{which} period {po}->{pn} at cycle {c0} (other timer {other}): {bad[1]}",
                   {"pchg": [which, po, pn, other, c0]})
    return {"n": n, "vb": vb}


def run(ctx) -> None:
    rb.build()
    small = [(m, s) for m in range(0, 7) for s in range(0, 7)] + [(7, 13)]
    if ctx.seed:
        small.append((2 + ctx.seed % 9, 3 + (ctx.seed // 9) % 11))
    cfgs = [(m, s, True) for m, s in small] + [(3, 5, False), (0, 0, False), (1, 1, False)]
    jobs = []
    for cfg in cfgs:
        p = max(cfg[0], 1)
        gaps = sorted({1, 2, 3, 5, 8, 2 * p, 3 * p + 1})
        jobs.append((cfg, gaps, ["reset", "snap", "snap1", "clr", "mreset"], 14 if ctx.thorough else 9))
    clo = pmap(_closure, jobs)
    aft = pmap(_after_identity, [(cfg,) for cfg in cfgs + [(2048, 512000, True), (4096, 1024, True)]])
    for r in aft:
        ctx.merge_bucket(r["vb"])
    ctx.coverage["histories_continued_after_snapshot_or_reset"] = sum(r["n"] for r in aft)
    # default periods: directed gap sequences
    from pce500.emulator import MTI_PERIOD_CYCLES_DEFAULT as PM, STI_PERIOD_CYCLES_DEFAULT as PS
    L = 4 if ctx.thorough else 3
    seqs: List[Tuple] = []
    for p in (PM, PS):
        gs = [1, p - 1, p, p + 1, 2 * p, 3 * p + 1]
        cur: List[Tuple] = [()]
        for _ in range(L):
            cur = [c + (("tick", g),) for c in cur for g in gs]
            seqs += cur
    dflt = pmap(_directed, [((PM, PS, True), s) for s in chunks(seqs, nproc())])
    per = pmap(_percycle, [((m, s, True), 4 * max(m, s, 1) * (3 if ctx.thorough else 1) + 3) for m, s in small if m or s])
    for r in clo + dflt + per:
        ctx.merge_bucket(r["vb"])
    pc = period_change_cases()
    resPC = pmap(_period_change, [(c,) for c in chunks(pc, nproc())])
    for r in resPC:
        ctx.merge_bucket(r["vb"])
    ctx.coverage["python_period_change"] = {"cases": len(pc), "ticks_judged": sum(r["n"] for r in resPC)}
    from . import c13_machine
    ctx.coverage["machine_level"] = c13_machine.run_machine(ctx)
    ctx.level = "model_checking"
    states = sum(r["states"] for r in clo)
    trans = sum(r["transitions"] for r in clo) + sum(r["n"] for r in dflt) + sum(r["n"] for r in per)
    ctx.coverage.update({
        "states": states,
        "transitions": trans,
        "traces_validated_against_impl": trans,
        "configs": len(cfgs),
        "configs_closed": sum(1 for r in clo if r["closed"]),
        "max_depth": max(r["depth"] for r in clo),
        "default_period_sequences": sum(r["n"] for r in dflt),
        "exhaustive": all(r["closed"] for r in clo),
        "rule": ("per (mti,sti,enabled) config BFS over {tick+gap, reset, snapshot/restore, clear-ISR}, dedup on "
                 "(next_mti-cycle, next_sti-cycle, ISR&3) of the reference; every transition replayed on "
                 "PCE500Emulator._tick_timers/TimerScheduler and Rust TimerContext::tick_timers and compared with the "
                 f"reference; default periods: all gap sequences of length <= {L} over 6 boundary gaps per timer; "
                 "per-cycle runs count fires exactly"),
        "samples": [{"cfg": list(r["cfg"]), "history": r["sample"]} for r in clo[8:11]],
    })
    if not all(r["closed"] for r in clo):
        ctx.coverage["not_closed"] = [list(r["cfg"]) for r in clo if not r["closed"]]
    ctx.assumptions += ["ticks happen at non-decreasing cycle counts (gaps >= 1)",
                        "a tick that crosses several boundaries reports one fire (statement: 'when ticked every cycle' for exact counts)"]


def replay(ctx, w) -> Optional[str]:
    if w.get("finalize"):
        rb.build()
        r = _percycle((tuple(w["cfg"]), w["n"]))
        for sig, (cnt, wl) in r["vb"].d.items():
            if "instruction-boundaries" in sig:
                return wl[0][0]
        return None
    if w.get("pchg"):
        r = _period_change(([tuple(w["pchg"])],))
        for sig, (cnt, wl) in r["vb"].d.items():
            return wl[0][0]
        return None
    if w.get("machine"):
        from . import c13_machine
        rb.build()
        return c13_machine.replay(w)
    rb.build()
    cfg = tuple(w["cfg"])
    hist = tuple(tuple(e) for e in w["history"])
    vb = VB()
    judge(cfg, hist, run_py(cfg, hist), rb.harness().call(rs_req(cfg, hist)), vb)
    for sig, (cnt, wl) in vb.d.items():
        return wl[0][0]
    return None
