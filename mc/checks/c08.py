"""C08 — register aliasing, widths and flag packing after any sequence of writes.

Model checking on the real register files (Python Registers, Rust LlamaState):
  full   : every sequence of <= D writes over the complete alphabet (16 write targets x palette)
  groups : closure (all reachable states) inside each alias group {BA,A,B} {I,IL,IH} {F,FC,FZ,flagC,flagZ}
           and each 20-bit single, with the complete palette
Oracle: reference register file (spec/regfile.py) + Python == Rust on every read after every write,
snapshot round trip into a fresh register file, Python blob == Rust blob == reference blob.
"""
from __future__ import annotations

from typing import Any, Dict, List, Optional, Tuple

from ..core import VB, nproc
from ..par import pmap, chunks
from ..spec.regfile import RefRegs, NAMES
from .. import rustbridge as rb

from sc62015.pysc62015.emulator import Registers, RegisterName
from sc62015.pysc62015.stepper import CPURegistersSnapshot
from pce500.emulator import _pack_register_bytes

PALETTE = [0, 1, 2, 3, 0x7F, 0x80, 0xFF, 0x100, 0xFFFF, 0x10000, 0xFFFFF, 0x100000, 0xFFFFFF,
           0xFFFFFFFF, 0xA5A5A5A5]
TARGETS = NAMES + ["flag:C", "flag:Z"]
GROUPS = {
    "BA": ["BA", "A", "B"],
    "I": ["I", "IL", "IH"],
    "F": ["F", "FC", "FZ", "flag:C", "flag:Z"],
    "X": ["X"], "Y": ["Y"], "U": ["U"], "S": ["S"], "PC": ["PC"],
}


def py_apply(hist) -> Tuple[Dict[str, int], Dict[str, Any]]:
    regs = Registers()
    CPURegistersSnapshot.from_registers(regs)
    for tgt, v in hist:
        if tgt.startswith("flag:"):
            regs.set_flag(tgt[5:], v)
        else:
            regs.set(RegisterName[tgt], v)
        CPURegistersSnapshot.from_registers(regs)      # a snapshot is also taken in every state on the way (same register file)
    reads = {n: regs.get(RegisterName[n]) for n in NAMES}
    reads_flag = {"C": regs.get_flag("C"), "Z": regs.get_flag("Z")}
    snap = CPURegistersSnapshot.from_registers(regs)
    fresh = Registers()
    snap.apply_to(fresh)
    fresh_reads = {n: fresh.get(RegisterName[n]) for n in NAMES}
    return reads, {"flags": reads_flag, "fresh": fresh_reads, "blob": _pack_register_bytes(snap).hex(),
                   "dict": snap.to_dict()}


def rs_script(hist):
    ops = []
    for tgt, v in hist:
        name = {"flag:C": "FC", "flag:Z": "FZ"}.get(tgt, tgt)
        ops.append({"set": [name, v & 0xFFFFFFFF], "via_pc_accessor": name == "PC" and (v & 1) == 1})
    ops.append({"readall": 1})
    ops.append({"snap": 1})
    return {"cmd": "regs", "script": ops}


def ref_apply(hist):
    r = RefRegs()
    for tgt, v in hist:
        name = {"flag:C": "FC", "flag:Z": "FZ"}.get(tgt, tgt)
        r.set(name, v)
    return r


def judge(hist, rs_out, vb: VB) -> Tuple:
    """Compare python / rust / reference after replaying hist. Returns canonical key (reference reads)."""
    ref = ref_apply(hist)
    want = ref.readall()
    last = hist[-1][0] if hist else "-"
    wit = lambda: {"history": [[t, v] for t, v in hist]}  # noqa: E731
    try:
        py_reads, py_x = py_apply(hist)
    except Exception as exc:  # noqa: BLE001
        vb.add(f"C08/py-raises/{type(exc).__name__}/{last}", f"Registers raised {exc} on {hist}", wit)
        return tuple(want[n] for n in NAMES)
    for n in NAMES:
        if py_reads[n] != want[n]:
            vb.add(f"C08/py-read/{n}/after-write-{last}",
                   f"python: after {hist} reading {n} gives {py_reads[n]:#x}, expected {want[n]:#x}", wit)
    if py_x["flags"] != {"C": want["FC"], "Z": want["FZ"]}:
        vb.add(f"C08/py-get_flag/after-write-{last}", f"python get_flag {py_x['flags']} vs F={want['F']:#x} after {hist}", wit)
    for n in NAMES:
        if py_x["fresh"][n] != want[n]:
            vb.add(f"C08/py-snapshot-roundtrip/{n}", f"python: snapshot->fresh {n}={py_x['fresh'][n]:#x} expected {want[n]:#x} after {hist}", wit)
    for k, n in (("pc", "PC"), ("ba", "BA"), ("i", "I"), ("x", "X"), ("y", "Y"), ("u", "U"), ("s", "S"), ("f", "F")):
        if py_x["dict"].get(k) != want[n]:
            vb.add(f"C08/py-snapshot-to_dict/{n}", f"to_dict()[{k}]={py_x['dict'].get(k)} expected {want[n]:#x} after {hist}", wit)
    if py_x["blob"] != ref.blob().hex():
        vb.add("C08/py-blob-layout", f"python blob {py_x['blob']} expected {ref.blob().hex()} after {hist}", wit)
    if rs_out is not None:
        if "panic" in rs_out or "err" in rs_out:
            vb.add(f"C08/rust-error/{last}", f"rust harness error {rs_out} on {hist}", wit)
            return tuple(want[n] for n in NAMES)
        reads, snap = rs_out["out"][0], rs_out["out"][1]
        for n in NAMES:
            if reads[n] != want[n]:
                vb.add(f"C08/rust-read/{n}/after-write-{last}",
                       f"rust: after {hist} reading {n} gives {reads[n]:#x}, expected {want[n]:#x} (python {py_reads[n]:#x})", wit)
        if "PC_accessor" in reads and reads["PC_accessor"] != want["PC"]:
            vb.add(f"C08/rust-pc-accessor/after-write-{last}", f"rust: after {hist} state.pc() gives {reads['PC_accessor']:#x}, get_reg(PC)/reference "
                   f"{want['PC']:#x}", wit)
        for n in NAMES:
            if snap["fresh"][n] != want[n]:
                vb.add(f"C08/rust-snapshot-roundtrip/{n}",
                       f"rust: collect/pack/unpack/apply gives {n}={snap['fresh'][n]:#x} expected {want[n]:#x} after {hist}", wit)
        if snap["blob"] != py_x["blob"]:
            vb.add("C08/blob-python-vs-rust", f"python blob {py_x['blob']} rust blob {snap['blob']} after {hist}", wit)
        if snap.get("err"):
            vb.add("C08/rust-unpack-error", f"unpack error {snap['err']} after {hist}", wit)
    return tuple(want[n] for n in NAMES)


def _shard_full(args):
    firsts, depth, palette = args
    h = rb.harness()
    vb = VB()
    events = [(t, v) for t in TARGETS for v in palette]
    n = 0
    outcomes = set()
    for e1 in firsts:
        hists = [(e1,)]
        if depth >= 2:
            hists += [(e1, e2) for e2 in events]
        if depth >= 3:
            hists += [(e1, e2, e3) for e2 in events for e3 in events]
        for i in range(0, len(hists), 2000):
            part = hists[i:i + 2000]
            outs = h.batch([rs_script(x) for x in part])
            for hist, o in zip(part, outs):
                outcomes.add(judge(hist, o, vb))
                n += 1
    return {"n": n, "vb": vb, "outcomes": len(outcomes)}


def _closure(args):
    gname, targets, palette = args
    h = rb.harness()
    vb = VB()
    events = [(t, v) for t in targets for v in palette]
    seen = {}
    frontier = [()]
    seen[judge((), h.call(rs_script(())), vb)] = ()
    trans = 0
    depth = 0
    sample = None
    while frontier:
        nxt = []
        cand = [hist + (e,) for hist in frontier for e in events]
        for i in range(0, len(cand), 2000):
            part = cand[i:i + 2000]
            outs = h.batch([rs_script(x) for x in part])
            for hist, o in zip(part, outs):
                k = judge(hist, o, vb)
                trans += 1
                if k not in seen:
                    seen[k] = hist
                    nxt.append(hist)
                    sample = hist
        frontier = nxt
        if nxt:
            depth += 1
    return {"group": gname, "states": len(seen), "transitions": trans, "depth": depth, "vb": vb,
            "sample": [list(e) for e in (sample or ())]}


# ---- scratch registers TEMP0..TEMP13: named, 24 bits wide, independent of each other and of everything else ----------

TEMPS = [f"TEMP{i}" for i in range(14)]
TMASK = 0xFFFFFF


def _scratch_judge(hist, rs_out, vb: VB, shard=None) -> Tuple:
    want_t = {t: 0 for t in TEMPS}
    ref = RefRegs()
    for tgt, v in hist:
        if tgt in want_t:
            want_t[tgt] = v & TMASK
        else:
            ref.set(tgt, v)
    want = ref.readall()
    last = hist[-1][0] if hist else "-"
    # the shard (every history judged before this one in the same process) is part of the witness: snapshots share module state
    wit = lambda: {"scratch": True, "history": [[t, v] for t, v in hist], **({"shard": shard} if shard else {})}  # noqa: E731
    try:
        regs = Registers()
        for tgt, v in hist:
            regs.set(RegisterName[tgt], v)
        py_t = {t: regs.get(RegisterName[t]) for t in TEMPS}
        py_a = {n: regs.get(RegisterName[n]) for n in NAMES}
        snap = CPURegistersSnapshot.from_registers(regs)
        fresh = Registers()
        snap.apply_to(fresh)
        fr_t = {t: fresh.get(RegisterName[t]) for t in TEMPS}
        fr_a = {n: fresh.get(RegisterName[n]) for n in NAMES}
        dct = snap.to_dict()
    except Exception as exc:  # noqa: BLE001
        vb.add(f"C08/scratch/py-raises/{type(exc).__name__}/{last}", f"python raised {exc!r} on {hist}", wit)
        return tuple(want_t.values())
    for t in TEMPS:
        if py_t[t] != want_t[t]:
            vb.add(f"C08/scratch/py-read/{t}/after-write-{last}", f"python: after {hist} reading {t} gives {py_t[t]:#x}, expected {want_t[t]:#x}", wit)
        if fr_t[t] != want_t[t]:
            vb.add(f"C08/scratch/py-snapshot-roundtrip/{t}", f"python: snapshot->fresh {t}={fr_t[t]:#x} expected {want_t[t]:#x} after {hist}", wit)
        if (dct.get(t, 0) or 0) != want_t[t]:
            vb.add(f"C08/scratch/py-snapshot-to_dict/{t}", f"python: to_dict()[{t}]={dct.get(t)} expected {want_t[t]:#x} after {hist}", wit)
    for n in NAMES:
        if py_a[n] != want[n]:
            vb.add(f"C08/scratch/py-read/{n}/after-write-{last}", f"python: after {hist} reading {n} gives {py_a[n]:#x}, expected {want[n]:#x}", wit)
        if fr_a[n] != want[n]:
            vb.add(f"C08/scratch/py-snapshot-roundtrip/{n}", f"python: snapshot->fresh {n}={fr_a[n]:#x} expected {want[n]:#x} after {hist}", wit)
    if rs_out is not None:
        if "panic" in rs_out or "err" in rs_out:
            vb.add(f"C08/scratch/rust-error/{last}", f"rust harness error {rs_out} on {hist}", wit)
            return tuple(want_t.values())
        reads, snap_r = rs_out["out"][0], rs_out["out"][1]
        for t in TEMPS:
            if reads[t] != want_t[t]:
                vb.add(f"C08/scratch/rust-read/{t}/after-write-{last}", f"rust: after {hist} reading {t} gives {reads[t]:#x}, expected {want_t[t]:#x} "
                       f"(python {py_t[t]:#x})", wit)
            if snap_r["fresh"][t] != want_t[t]:
                vb.add(f"C08/scratch/rust-snapshot-roundtrip/{t}", f"rust: collect/apply gives {t}={snap_r['fresh'][t]:#x} expected {want_t[t]:#x} after {hist}", wit)
            if snap_r["collected"].get(t) != want_t[t]:
                vb.add(f"C08/scratch/rust-collected/{t}", f"rust: collect_registers()[{t}]={snap_r['collected'].get(t)} expected {want_t[t]:#x} after {hist}", wit)
        for n in NAMES:
            if reads[n] != want[n]:
                vb.add(f"C08/scratch/rust-read/{n}/after-write-{last}", f"rust: after {hist} reading {n} gives {reads[n]:#x}, expected {want[n]:#x}", wit)
            if snap_r["fresh"][n] != want[n]:
                vb.add(f"C08/scratch/rust-snapshot-roundtrip/{n}", f"rust: collect/apply gives {n}={snap_r['fresh'][n]:#x} expected {want[n]:#x} after {hist}", wit)
    return tuple(want_t.values()) + tuple(want[n] for n in NAMES)


def _scratch_script(hist):
    return {"cmd": "regs", "script": [{"set": [t, v & 0xFFFFFFFF]} for t, v in hist] + [{"readall": 1, "temps": True}, {"snap_map": 1}]}


def _scratch_shard(args):
    firsts, events, depth = args
    h = rb.harness()
    vb = VB()
    n = 0
    outcomes = set()
    for e1 in firsts:
        hists = [(e1,)]
        if depth >= 2:
            hists += [(e1, e2) for e2 in events]
        if depth >= 3:
            hists += [(e1, e2, e3) for e2 in events for e3 in events]
        for i in range(0, len(hists), 2000):
            part = hists[i:i + 2000]
            outs = h.batch([_scratch_script(x) for x in part])
            for hist, o in zip(part, outs):
                outcomes.add(_scratch_judge(hist, o, vb, {"firsts": [list(x) for x in firsts], "events": [list(x) for x in events], "depth": depth}))
                n += 1
    return {"n": n, "vb": vb, "outcomes": len(outcomes)}


def run(ctx) -> None:
    rb.build()
    palette = list(PALETTE)
    if ctx.seed:
        palette.append((ctx.seed * 2654435761) & 0xFFFFFFFF)
        palette.append((ctx.seed * 40503 + 0x9E3779B9) & 0xFFFFFFFF)
    events = [(t, v) for t in TARGETS for v in palette]
    depth = 2
    full_palette = palette
    if ctx.thorough:
        depth = 3
        full_palette = [0, 1, 0x80, 0xFF, 0x100, 0xFFFFF, 0x100000, 0xA5A5A5A5] + palette[len(PALETTE):]
    firsts = [(t, v) for t in TARGETS for v in full_palette]
    res = pmap(_shard_full, [(s, depth, full_palette) for s in chunks(firsts, nproc() * 2)])
    clo = pmap(_closure, [(g, t, palette) for g, t in GROUPS.items()])
    tvals = [1, 0xFFFFFF, 0x1234567, 0xA5A5A5A5]
    arch = [("BA", 0x1234), ("X", 0xFFFFF), ("F", 3), ("PC", 0xFFFFF), ("I", 0xFFFF)]
    if ctx.thorough:
        sev = [(t, v) for t in TEMPS for v in tvals[1:3]] + arch[:2]
        sdepth = 3
    else:
        sev = [(t, v) for t in TEMPS for v in tvals] + arch
        sdepth = 2
    sres = pmap(_scratch_shard, [(c, sev, sdepth) for c in chunks(sev, nproc() * 2)])
    if ctx.thorough:
        sev2 = [(t, v) for t in TEMPS for v in tvals] + arch
        sres += pmap(_scratch_shard, [(c, sev2, 2) for c in chunks(sev2, nproc() * 2)])
    for r in res:
        ctx.merge_bucket(r["vb"])
    for r in clo:
        ctx.merge_bucket(r["vb"])
    for r in sres:
        ctx.merge_bucket(r["vb"])
    nseq = sum(r["n"] for r in res) + sum(r["n"] for r in sres)
    ctx.level = "model_checking"
    ctx.coverage.update({
        "states": sum(r["states"] for r in clo) + sum(r["outcomes"] for r in res),
        "transitions": sum(r["transitions"] for r in clo) + nseq,
        "traces_validated_against_impl": sum(r["transitions"] for r in clo) + nseq,
        "full_alphabet_sequences": nseq,
        "scratch_register_sequences": sum(r["n"] for r in sres),
        "full_alphabet_depth": depth,
        "closure_per_group": {r["group"]: {"states": r["states"], "transitions": r["transitions"], "depth": r["depth"]} for r in clo},
        "exhaustive": True,
        "rule": (f"all write sequences of length <= {depth} over {len(TARGETS)} targets x {len(full_palette)} values "
                 "(no dedup), plus BFS to closure inside each alias group with the full palette "
                 f"({len(palette)} values), dedup on the reference read vector; after every write all 14 names are read "
                 "on Python Registers and Rust LlamaState and compared with the reference register file; snapshot "
                 "round trips and register blobs compared in every state; the 14 scratch registers TEMP0-13 (24 bits, named in both cores and carried by "
                 f"snapshots): all write sequences <= {sdepth} over 14 x {len(tvals) if not ctx.thorough else 2} scratch writes interleaved with architectural writes, every name read, snapshot map round trip"),
        "samples": [{"full": [["BA", 0x12345], ["IL", 0x1FF]]}] + [{"closure_" + r["group"]: r["sample"]} for r in clo[:3]],
    })
    ctx.assumptions += ["hidden representation differences that no read can observe are not distinguished",
                        "flag writes with values other than 0/1 are truncated to one bit (width rule of the statement)"]


def replay(ctx, w) -> Optional[str]:
    rb.build()
    hist = tuple((t, v) for t, v in w["history"])
    vb = VB()
    if w.get("scratch"):
        if w.get("shard"):       # first in the order it was seen in (earlier snapshots of the same process), then alone
            sh = w["shard"]
            r = _scratch_shard(([tuple(x) for x in sh["firsts"]], [tuple(x) for x in sh["events"]], sh["depth"]))
            for sig, (cnt, wl) in r["vb"].d.items():
                for what, wt in wl:
                    if (wt() if callable(wt) else wt).get("history") == w["history"]:
                        return "[after the earlier histories of its shard] " + what
            for sig, (cnt, wl) in r["vb"].d.items():
                return "[after the earlier histories of its shard] " + wl[0][0]
        _scratch_judge(hist, rb.harness().call(_scratch_script(hist)), vb)
        for sig, (cnt, wl) in vb.d.items():
            return wl[0][0]
        return None
    judge(hist, rb.harness().call(rs_script(hist)), vb)
    for sig, (cnt, wl) in vb.d.items():
        return wl[0][0]
    return None
