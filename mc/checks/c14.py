"""C14 — keyboard matrix: KIL shows exactly held keys on strobed columns; events ordered; FIFO law; KEYI gating.

Model checking on the real Python KeyboardMatrix and the real Rust KeyboardMatrix against the reference
automaton of spec/keyboard.py: BFS over {press k, release k, write KOL/KOH, scan tick, read KIL,
inject, consume} histories, dedup on (per-key state, strobes, FIFO), plus scripted long runs for the
repeat cadence and FIFO overflow.
"""
from __future__ import annotations

from typing import Any, Dict, List, Optional, Tuple

from ..core import VB, nproc
from ..par import pmap, chunks
from ..spec.keyboard import RefKeyboard
from .. import rustbridge as rb

from pce500.keyboard_matrix import KeyboardMatrix, KEY_LOCATIONS

# three colliding keys + one on a KOH column
KEYS = {"KEY_Q": None, "KEY_E": None, "KEY_A": None, "KEY_P": None}
for _k in list(KEYS):
    loc = KEY_LOCATIONS[_k]
    KEYS[_k] = (loc.column, loc.row)
CODE = {k: (c << 3) | r for k, (c, r) in KEYS.items()}
NAME_OF = {v: k for k, v in CODE.items()}


def col_mask(keys: List[str]) -> Tuple[int, int]:
    kol = koh = 0
    for k in keys:
        c = KEYS[k][0]
        if c < 8:
            kol |= 1 << c
        else:
            koh |= 1 << (c - 8)
    return kol, koh


def strobe_values(active_high: bool) -> List[Tuple[str, int]]:
    q = col_mask(["KEY_Q"])[0]
    e = col_mask(["KEY_E"])[0]
    p = col_mask(["KEY_P"])[1]
    vals = [("kol", 0x00), ("kol", q), ("kol", e), ("kol", q | e), ("kol", 0xFF), ("koh", 0x00), ("koh", p)]
    if not active_high:
        vals = [(r, (~v) & (0xFF if r == "kol" else 0x0F)) for r, v in vals]
    return vals


# ---- drivers -----------------------------------------------------------------------------

class _ViaHandler:
    """The bus-facing PCE500KeyboardHandler around the matrix: strobe writes and key-input reads go through
    handle_register_write/read (F0/F1/F2), presses through press_key/release_key."""

    def __init__(self, cfg) -> None:
        from pce500.keyboard_handler import PCE500KeyboardHandler
        ah, pth, rth, dly, itv = cfg
        self.h = PCE500KeyboardHandler(None, columns_active_high=ah)
        self.h._matrix = KeyboardMatrix(columns_active_high=ah, press_threshold=pth, release_threshold=rth, repeat_delay=dly,
                                        repeat_interval=itv)
        self.h._last_kol, self.h._last_koh = self.h._matrix.kol, self.h._matrix.koh
        self._key_states = self.h._matrix._key_states

    kol = property(lambda self: self.h.handle_register_read(0xF0))
    koh = property(lambda self: self.h.handle_register_read(0xF1))

    def press_key(self, k): return self.h.press_key(k)
    def release_key(self, k): return self.h.release_key(k)
    def write_kol(self, v): return self.h.handle_register_write(0xF0, v)
    def write_koh(self, v): return self.h.handle_register_write(0xF1, v)
    def scan_tick(self): return self.h.scan_tick()
    def read_kil(self): return self.h.handle_register_read(0xF2)
    def inject_event(self, k, release=False): return self.h._matrix.inject_event(k, release=release)
    def consume_pending_events(self): return self.h.consume_pending_events()
    def pop_fifo(self): return self.h._matrix.pop_fifo()
    def fifo_snapshot(self): return self.h.fifo_snapshot()


def run_py(cfg, hist, handler: bool = False) -> List[Dict[str, Any]]:
    ah, pth, rth, dly, itv = cfg
    kb = KeyboardMatrix(columns_active_high=ah, press_threshold=pth, release_threshold=rth, repeat_delay=dly,
                        repeat_interval=itv)
    if handler:
        kb = _ViaHandler(cfg)
    out = []
    for ev in hist:
        k = ev[0]
        o: Dict[str, Any] = {}
        before = kb.fifo_snapshot()
        if k == "press":
            kb.press_key(ev[1])
        elif k == "release":
            kb.release_key(ev[1])
        elif k == "kol":
            kb.write_kol(ev[1])
        elif k == "koh":
            kb.write_koh(ev[1])
        elif k == "tick":
            evs = kb.scan_tick()
            o["events"] = sorted((e.code, bool(e.release)) for e in evs)
        elif k == "read":
            o["kil"] = kb.read_kil()
        elif k == "inject":
            kb.inject_event(ev[1], release=bool(ev[2]))
            o["events"] = [(CODE[ev[1]], bool(ev[2]))]
        elif k == "consume":
            kb.consume_pending_events()
        elif k == "pop":
            kb.pop_fifo()
        elif k == "snap" and not handler:
            st = kb.snapshot_state()
            kb2 = KeyboardMatrix(columns_active_high=ah, press_threshold=pth, release_threshold=rth, repeat_delay=dly,
                                 repeat_interval=itv)
            kb2.load_state(st)
            kb = kb2
        o["fifo_before"] = before
        o["fifo"] = kb.fifo_snapshot()
        o["state"] = tuple((n, s.pressed, s.debounced, s.press_ticks, s.release_ticks, s.repeat_ticks)
                           for n, s in sorted(kb._key_states.items()) if n in KEYS)
        o["kol"], o["koh"] = kb.kol, kb.koh
        out.append(o)
    return out


def rs_req(cfg, hist):
    ah, pth, rth, dly, itv = cfg
    ops = []
    for ev in hist:
        k = ev[0]
        if k == "press":
            ops.append({"press": CODE[ev[1]]})
        elif k == "release":
            ops.append({"release": CODE[ev[1]]})
        elif k == "kol":
            ops.append({"w": [0xF0, ev[1]]})
        elif k == "koh":
            ops.append({"w": [0xF1, ev[1]]})
        elif k == "tick":
            ops.append({"tick": True})
        elif k == "read":
            ops.append({"r": 0xF2})
        elif k == "inject":
            ops.append({"inject": [CODE[ev[1]], 1 if ev[2] else 0, 1]})
        elif k == "consume":
            ops.append({"consume": 1})
        elif k == "snap":
            ops.append({"snap": 1})
        elif k == "fifo2mem":
            ops.append({"fifo2mem": bool(ev[1])})
        elif k == "clr_isr":
            ops.append({"set_isr": 0})
        ops.append({"obs": 1})
    return {"cmd": "kbd", "cfg": {"press": pth, "active_high": ah}, "script": ops}


def rs_unpack(resp, hist) -> List[Dict[str, Any]]:
    out = []
    outs = resp["out"]
    for i, ev in enumerate(hist):
        a, obs = outs[2 * i], outs[2 * i + 1]
        o: Dict[str, Any] = {"fifo": obs["fifo"], "kol": obs["kol"], "koh": obs["koh"], "isr": obs["isr"]}
        if ev[0] == "tick":
            n = a["events"]
            o["fifo_before"] = a["fifo_before"]
            newf = a["fifo"]
            o["events"] = sorted(((b & 0x7F), bool(b & 0x80)) for b in (newf[len(newf) - n:] if n else []))
            o["n_events"] = n
        if ev[0] == "read":
            o["kil"] = a["v"]
        if ev[0] == "inject":
            o["events"] = [(CODE[ev[1]], bool(ev[2]))]
        ks = obs["key_states"]
        o["state"] = tuple((n, ks[n]["pressed"], ks[n]["debounced"], ks[n]["press_ticks"], ks[n]["release_ticks"],
                            ks[n]["repeat_ticks"]) for n in sorted(KEYS) if n in ks)
        out.append(o)
    return out


# ---- judge ---------------------------------------------------------------------------------

def judge(impl: str, cfg, hist, obs: List[Dict[str, Any]], vb: VB, read_scans: bool, cap: int,
          release_clears: bool = False) -> None:
    """Judged under both admissible origins of the release interval (see RefKeyboard.release_restarts): a history is a
    violation only if it contradicts the reference under both; the report is the one of the default policy."""
    first = VB()
    _judge(impl, cfg, hist, obs, first, read_scans, cap, release_clears, False)
    if not first.d:
        return
    if any(e[0] == "release" for e in hist):
        second = VB()
        _judge(impl, cfg, hist, obs, second, read_scans, cap, release_clears, True)
        if not second.d:
            return
    for sig, (cnt, wl) in first.d.items():
        ent = vb.d.setdefault(sig, [0, []])
        ent[0] += cnt
        for w in wl:
            if len(ent[1]) < 3:
                ent[1].append(w)


def _judge(impl: str, cfg, hist, obs: List[Dict[str, Any]], vb: VB, read_scans: bool, cap: int,
           release_clears: bool, release_restarts: bool) -> None:
    ah, pth, rth, dly, itv = cfg
    # the strobe registers start with whatever the implementation reports (Rust: 0/0 for both polarities)
    ref = RefKeyboard(KEYS, ah, pth, rth, dly, itv, init_strobe=(0, 0) if impl == "rust" else None,
                      release_restarts=release_restarts)
    wit = lambda: {"impl": impl, "cfg": list(cfg), "history": [list(e) for e in hist]}  # noqa: E731
    tag = f"{impl}/{'hi' if ah else 'lo'}"
    fifo_prev: List[int] = []
    order: Dict[int, str] = {}     # per key: "up" / "down" by observed events
    feats: set = set()             # history features that name the trigger in the signature
    held_now: set = set()
    for i, ev in enumerate(hist):
        o = obs[i]
        k = ev[0]
        exp_events: Optional[List[Tuple[int, bool]]] = None
        if k == "press":
            if ev[1] in held_now:
                feats.add("repress-while-held")
            held_now.add(ev[1])
            ref.press(ev[1])
        elif k == "release":
            held_now.discard(ev[1])
            ref.release(ev[1])
        elif k == "kol":
            ref.kol = ev[1] & 0xFF
        elif k == "koh":
            ref.koh = ev[1] & 0x0F
        elif k == "tick":
            exp_events = sorted(ref.tick())
        elif k == "read" and read_scans:
            exp_events = None
            ref.tick()   # a key-input read that scans counts as a scan tick for the clocks
        elif k == "inject":
            s = ref.keys[ev[1]]
            if ev[2]:
                s.held = False
                s.down = False
                s.hs = s.ns = 0
                s.released_for = 0
            else:
                s.held = True
                s.down = True
                s.hs = pth
                s.rep = dly
                s.released_for = None
        elif k == "snap":
            # save -> fresh matrix -> load is the identity on everything a program can see: the queue first of all
            if i > 0 and o["fifo"] != obs[i - 1]["fifo"]:
                vb.add(f"C14/{tag}/snapshot/queue-changed/len={len(obs[i - 1]['fifo'])}", f"{impl} cfg={cfg}: the event queue was {obs[i - 1]['fifo']} before and "
                       f"{o['fifo']} after save/load ({hist[:i + 1][-4:]})", wit)
            if i > 0 and (o.get("kol"), o.get("koh")) != (obs[i - 1].get("kol"), obs[i - 1].get("koh")):
                vb.add(f"C14/{tag}/snapshot/strobe-registers-changed", f"{impl} cfg={cfg}: KOL/KOH {obs[i - 1].get('kol')}/{obs[i - 1].get('koh')} -> "
                       f"{o.get('kol')}/{o.get('koh')} by save/load", wit)
        # --- events -----------------------------------------------------------------------
        if k == "tick":
            got = o.get("events", [])
            if got != exp_events:
                miss = [e for e in exp_events if e not in got]
                extra = [e for e in got if e not in exp_events]
                kind = "missing-release-event" if any(r for _, r in miss) else \
                    "missing-press-or-repeat-event" if miss else \
                    "spurious-release-event" if any(r for _, r in extra) else "spurious-press-or-repeat-event"
                ft = ("/" + "+".join(sorted(feats))) if feats else ""
                vb.add(f"C14/{tag}/events/{kind}{ft}",
                       f"{impl} cfg={cfg}: tick #{i} of {hist[:i + 1]} produced {got}, reference {exp_events}", wit)
                # resynchronise the reference's logical state with what the implementation reported
                for code, rel in extra:
                    s = ref.keys[NAME_OF[code]]
                    s.down = not rel
                for code, rel in miss:
                    s = ref.keys[NAME_OF[code]]
                    s.down = rel
            # per-key order press (repeat)* release
            for code, rel in got:
                st = order.get(code, "up")
                if rel and st != "down":
                    vb.add(f"C14/{tag}/order/release-without-press", f"{impl}: release event for key {code:#x} without a "
                           f"preceding press in {hist[:i + 1]}", wit)
                order[code] = "up" if rel else "down"
        if k == "inject":
            order[CODE[ev[1]]] = "up" if ev[2] else "down"
        # --- KIL bounds -------------------------------------------------------------------
        if k == "read":
            v = o["kil"]
            allowed, required = ref.kil_allowed(), ref.kil_required()
            if v & ~allowed & 0xFF:
                vb.add(f"C14/{tag}/kil/ghost-row", f"{impl} cfg={cfg}: KIL={v:#04x} shows rows outside {allowed:#04x} "
                       f"(held/recently released keys on strobed columns) after {hist[:i + 1]}", wit)
            if required & ~v & 0xFF:
                vb.add(f"C14/{tag}/kil/debounced-key-not-shown", f"{impl} cfg={cfg}: KIL={v:#04x} lacks required rows "
                       f"{required:#04x} after {hist[:i + 1]}", wit)
        # --- FIFO law -----------------------------------------------------------------------
        fifo = o["fifo"]
        if len(fifo) > cap:
            vb.add(f"C14/{tag}/fifo/over-capacity", f"{impl}: FIFO holds {len(fifo)} > {cap} entries after {hist[:i + 1]}", wit)
        if k in ("tick", "inject"):
            new = [c | (0x80 if r else 0) for c, r in o.get("events", [])]
            full = fifo_prev + new
            # drop-oldest: the queue must be a suffix of (old ++ new) as multiset-ordered by arrival;
            # events of one tick may be enqueued in any key order
            if sorted(fifo) != sorted(full[len(full) - len(fifo):]) and not _suffix_any_order(fifo_prev, new, fifo):
                vb.add(f"C14/{tag}/fifo/not-drop-oldest", f"{impl}: FIFO {fifo} is not the newest part of {fifo_prev}+{new} "
                       f"after {hist[:i + 1]}", wit)
        fifo_prev = list(fifo)
    return None


def _suffix_any_order(old: List[int], new: List[int], fifo: List[int]) -> bool:
    n_new = min(len(new), len(fifo))
    keep_old = len(fifo) - n_new
    if keep_old > len(old):
        return False
    if keep_old and fifo[:keep_old] != old[len(old) - keep_old:]:
        return False
    tail = fifo[keep_old:]
    return all(x in new for x in tail)


def canon(o: Dict[str, Any]) -> Tuple:
    return (o["state"], o["kol"], o["koh"], tuple(o["fifo"]))


def alphabet(active_high: bool) -> List[Tuple]:
    ev: List[Tuple] = []
    for k in ("KEY_Q", "KEY_E", "KEY_A"):
        ev.append(("press", k))
        ev.append(("release", k))
    ev += strobe_values(active_high)[:5]
    ev += [("tick",), ("read",)]
    return ev


def _bfs(args):
    impl, cfg, depth, extra = args
    ah = cfg[0]
    vb = VB()
    events = alphabet(ah) + extra
    h = rb.harness() if impl == "rust" else None
    seen = {}
    frontier = [()]
    trans = 0
    d = 0
    last = ()
    start = ((),)
    # start with both collision columns strobed so debounce can progress
    while frontier and d < depth:
        cand = [hh + (e,) for hh in frontier for e in events]
        nxt = []
        if impl == "rust":
            for i in range(0, len(cand), 400):
                part = cand[i:i + 400]
                outs = h.batch([rs_req(cfg, x) for x in part])
                for hist, resp in zip(part, outs):
                    obs = rs_unpack(resp, hist)
                    judge("rust", cfg, hist, obs, vb, read_scans=True, cap=8)
                    trans += 1
                    kx = canon(obs[-1])
                    if kx not in seen:
                        seen[kx] = hist
                        nxt.append(hist)
                        last = hist
        else:
            for hist in cand:
                obs = run_py(cfg, hist, handler=(impl == "python-handler"))
                judge(impl, cfg, hist, obs, vb, read_scans=(impl == "python-handler"), cap=8)
                trans += 1
                kx = canon(obs[-1])
                if kx not in seen:
                    seen[kx] = hist
                    nxt.append(hist)
                    last = hist
        frontier = nxt
        d += 1
    return {"impl": impl, "cfg": cfg, "states": len(seen), "transitions": trans, "depth": d, "closed": not frontier,
            "vb": vb, "sample": [list(e) for e in last]}


def scripted(cfg) -> List[Tuple]:
    """Long runs: repeat cadence, release, FIFO overflow, strobe change mid-debounce, chatter."""
    ah, pth, rth, dly, itv = cfg
    q, e = col_mask(["KEY_Q"])[0], col_mask(["KEY_E"])[0]
    inv = (lambda v, r: v) if ah else (lambda v, r: (~v) & (0xFF if r == "kol" else 0x0F))
    both = ("kol", inv(q | e, "kol"))
    none = ("kol", inv(0, "kol"))
    hold = dly + 3 * max(itv, 1) + pth + 2
    runs = []
    runs.append((both, ("press", "KEY_Q")) + (("tick",),) * hold + (("read",), ("release", "KEY_Q")) + (("tick",),) * (rth + 2) + (("read",),))
    runs.append((both, ("press", "KEY_Q"), ("press", "KEY_E")) + (("tick",), ("read",)) * (pth + 1) + (("release", "KEY_Q"),) + (("tick",), ("read",)) * (rth + 1))
    # strobe change mid-debounce
    runs.append((both, ("press", "KEY_A")) + (("tick",),) * max(pth - 1, 1) + (none,) + (("tick",),) * 2 + (both,) + (("tick",), ("read",)) * (pth + 1))
    # chatter: re-press while held / release-press inside the release interval
    runs.append((both, ("press", "KEY_Q")) + (("tick",),) * (pth + 1) + (("press", "KEY_Q"),) + (("tick",),) * (pth + 1) +
                (("release", "KEY_Q"), ("press", "KEY_Q")) + (("tick",),) * (pth + rth + 1) + (("release", "KEY_Q"),) + (("tick",),) * (rth + 1))
    # strobe dropout while the key stays held: release event, then a fresh press with the full repeat delay
    runs.append((both, ("press", "KEY_Q")) + (("tick",),) * (pth + 1) + (none,) + (("tick",),) * (rth + 1) + (both,) +
                (("tick",),) * (pth + dly + 2 * max(itv, 1) + 2) + (("read",),))
    runs.append((both, ("press", "KEY_Q")) + (("tick",),) * (pth + dly + 1) + (none,) + (("tick",), ("read",)) * (rth + 1) + (both,) +
                (("tick",), ("read",)) * (pth + 2))
    # several strobe dropouts, each shorter than the release interval, while the key stays held: no release, no second press
    if rth >= 2:
        short = (none,) + (("tick",),) * (rth - 1) + (both,) + (("tick",), ("read",))
        runs.append((both, ("press", "KEY_Q")) + (("tick",),) * (pth + 1) + short * (rth + 2) + (("tick",), ("read",)) * 2)
    # injected events around the debounce windows: a release injected inside the release interval, a press injected on a held key
    runs.append((both, ("press", "KEY_Q")) + (("tick",),) * (pth + 1) + (("release", "KEY_Q"), ("inject", "KEY_Q", 1)) + (("tick",), ("read",)) * (rth + 2))
    runs.append((both, ("press", "KEY_Q")) + (("tick",),) * (pth + 1) + (("release", "KEY_Q"), ("tick",), ("inject", "KEY_Q", 1)) + (("tick",), ("read",)) * (rth + 2))
    runs.append((both, ("inject", "KEY_Q", 0), ("inject", "KEY_Q", 1)) + (("tick",), ("read",)) * (rth + 2))
    # FIFO overflow by injection burst
    burst = tuple(("inject", k, r) for _ in range(3) for k in ("KEY_Q", "KEY_E") for r in (0, 1))
    runs.append((both,) + burst + (("tick",), ("read",)))
    # KOH column key
    ph = ("koh", inv(col_mask(["KEY_P"])[1], "koh"))
    runs.append((ph, ("press", "KEY_P")) + (("tick",), ("read",)) * (pth + 1) + (("release", "KEY_P"),) + (("tick",), ("read",)) * (rth + 1))
    return runs


def _scripted(args):
    impl, cfg = args
    vb = VB()
    n = 0
    runs = scripted(cfg)
    if impl == "rust":
        h = rb.harness()
        for hist in runs:
            obs = rs_unpack(h.call(rs_req(cfg, hist)), hist)
            judge("rust", cfg, hist, obs, vb, read_scans=True, cap=8)
            n += len(hist)
        # KEYI gating: events pending + enabled -> may raise; disabled or empty -> must not raise
        for enabled in (True, False):
            for pending in (True, False):
                hist = ((("kol", 0xFF if cfg[0] else 0x00),) + ((("inject", "KEY_Q", 0),) if pending else ()) +
                        (("clr_isr",), ("fifo2mem", enabled)))
                resp = h.call(rs_req(cfg, hist))
                isr = resp["out"][-1]["isr"]
                n += 1
                if (isr & 4) and not (enabled and pending):
                    vb.add(f"C14/rust/keyi/raised-without-cause", f"rust: KEYI set with pending={pending} enabled={enabled}",
                           {"impl": "rust", "cfg": list(cfg), "history": [list(e) for e in hist]})
    else:
        for hist in runs:
            judge(impl, cfg, hist, run_py(cfg, hist, handler=(impl == "python-handler")), vb, read_scans=(impl == "python-handler"), cap=8)
            n += len(hist)
        if impl == "python":
            n += _py_keyi(cfg, vb)
    return {"n": n, "vb": vb}


def _scripted_snap(args):
    """Snapshot transparency of the matrix (used by C16): every scripted run with a save -> fresh matrix -> load
    inserted after each single position; the reference treats the snapshot as the identity."""
    impl, cfg = args
    vb = VB()
    n = 0
    h = rb.harness() if impl == "rust" else None
    for run_ in scripted(cfg):
        variants = [run_[:i] + (("snap",),) + run_[i:] for i in range(1, len(run_))]
        if impl == "rust":
            outs = h.batch([rs_req(cfg, v) for v in variants])
            for v, resp in zip(variants, outs):
                judge("rust", cfg, v, rs_unpack(resp, v), vb, read_scans=True, cap=8)
                n += 1
        else:
            for v in variants:
                judge("python", cfg, v, run_py(cfg, v), vb, read_scans=False, cap=8)
                n += 1
    return {"n": n, "vb": vb}


def _machine_keyi(args):
    """KEYI gating through the whole machine: with keyboard interrupts disabled no history of presses, releases, injected
    events and timer ticks may ever raise the KEYI status bit; with them enabled a debounced press does raise it."""
    from .. import machine as M
    from . import c12
    timers, = args
    vb = VB()
    n = 0
    h = rb.harness()
    scripts = [
        [("press", "KEY_Q")] + [("step",)] * 14,
        [("press", "KEY_Q")] + [("step",)] * 6 + [("release", "KEY_Q")] + [("step",)] * 14,
        [("inject", "KEY_Q", 0)] + [("step",)] * 8,
        [("step",)] * 3 + [("press", "KEY_Q")] + [("step",)] * 5 + [("press", "KEY_E")] + [("step",)] * 10,
    ]
    for timer in timers:
        for imr in (0x00, 0x85, 0x8F):
            for prog in ("nop", "halt", "wait"):
                for enabled in (False, True):
                    cfg = M.default_cfg(bytes.fromhex(c12.PROGRAMS[prog]), bytes.fromhex(c12.HANDLERS["reti"]), imr=imr, timer=timer,
                                        kb_irq=enabled, kb_press=1, kol=0xFF)
                    for si, sc in enumerate(scripts):
                        for impl in ("python", "rust"):
                            obs = M.run_py(cfg, sc) if impl == "python" else M.run_rs(h, cfg, sc)
                            n += len(sc)
                            raised = [k for k, o in enumerate(obs) if o["imem"][0xFC] & 0x04]
                            wit = {"impl": "machine-keyi", "machine": impl, "cfg": [prog, imr, list(timer), enabled], "script": si}
                            if raised and not enabled:
                                vb.add(f"C14/{impl}/machine-keyi/raised-while-disabled", f"{impl} {prog} imr={imr:02x} t={timer}: keyboard interrupts disabled, "
                                       f"yet KEYI was set at event {raised[0]} of {sc[:raised[0] + 1]}", wit)
                            if enabled and not raised and si in (0, 2) and prog == "nop" and timer[0] and timer[1] in (1, 2):
                                vb.add(f"C14/{impl}/machine-keyi/never-raised-while-enabled", f"{impl} {prog} imr={imr:02x} t={timer}: keyboard interrupts "
                                       f"enabled, key event pending for {len(sc)} events, KEYI never set", wit)
    return {"n": n, "vb": vb}


def _rust_tick_count(args):
    """The number of events a Rust scan tick reports equals the number of events it queued (KEYI is raised from that
    count); with FIFO mirroring disabled nothing is queued, so it must report none, whatever the keys do."""
    cfg, = args
    ah, pth = cfg[0], cfg[1]
    h = rb.harness()
    vb = VB()
    q = col_mask(["KEY_Q"])[0]
    strobe = q if ah else (~q) & 0xFF
    n = 0
    for mirror in (True, False):
        ops = [{"w": [0xF0, strobe]}, {"press": CODE["KEY_Q"]}]
        for k in range(40):
            if k == 32:
                ops.append({"release": CODE["KEY_Q"]})
            ops.append({"tick": True})
        out = h.call({"cmd": "kbd", "cfg": {"press": pth, "active_high": ah, "mirror": mirror}, "script": ops})["out"]
        ticks = [o for o in out if "events" in o and "fifo_before" in o]
        for k, o in enumerate(ticks):
            n += 1
            grown = len(o["fifo"]) - len(o["fifo_before"])
            if o["events"] != grown and len(o["fifo"]) < 8:
                vb.add(f"C14/rust/tick-count-differs-from-queued-events/{'mirroring' if mirror else 'mirroring-disabled'}",
                       f"rust cfg={list(cfg)}: scan tick #{k} (FIFO mirroring {'on' if mirror else 'off'}) reported {o['events']} events but the "
                       f"queue grew by {grown}", {"impl": "rust-tick-count", "cfg": list(cfg)})
    return {"n": n, "vb": vb}


def _py_keyi(cfg, vb: VB) -> int:
    """KEYI gating through the real machine glue (PCE500Emulator._scan_keyboard_per_instruction)."""
    from pce500.emulator import PCE500Emulator
    n = 0
    for enabled in (True, False):
        for pending in (True, False):
            emu = PCE500Emulator(save_lcd_on_exit=False, keyboard_columns_active_high=cfg[0])
            emu._kb_irq_enabled = enabled
            m = emu.keyboard._matrix
            if pending:
                m.inject_event("KEY_Q", release=False)
            emu.memory.write_byte(0x1000FC, 0)
            emu._scan_keyboard_per_instruction()
            isr = emu.memory.read_byte(0x1000FC)
            n += 1
            if (isr & 4) and not (enabled and pending):
                vb.add("C14/python/keyi/raised-without-cause", f"python: KEYI set with pending={pending} enabled={enabled}",
                       {"impl": "python-keyi", "cfg": list(cfg), "pending": pending, "enabled": enabled})
    return n


def run(ctx) -> None:
    rb.build()
    py_cfgs = [(ah, p, r, d, i) for ah in (True, False) for (p, r, d, i) in ((1, 1, 1, 1), (2, 2, 2, 1), (2, 1, 3, 2))]
    py_cfgs += [(True, 1, 2, 0, 2), (True, 2, 1, 0, 1)]          # no repeat delay: the first repeat follows the press at once
    rs_cfgs = [(ah, p, 6, 24, 6) for ah in (True, False) for p in (1, 2)]
    depth_py = 7 if ctx.thorough else 5
    depth_rs = 6 if ctx.thorough else 4
    jobs = ([("python", c, depth_py, []) for c in py_cfgs] + [("rust", c, depth_rs, []) for c in rs_cfgs] +
            [("python-handler", c, depth_py - 1, []) for c in py_cfgs[:2] + py_cfgs[3:5]])
    res = pmap(_bfs, jobs)
    sres = pmap(_scripted, [("python", c) for c in py_cfgs + [(True, 6, 6, 24, 6)]] + [("python-handler", c) for c in py_cfgs + [(True, 6, 6, 24, 6)]] + [("rust", c) for c in rs_cfgs + [(True, 6, 6, 24, 6)]])
    mres = pmap(_machine_keyi, [([t],) for t in ((True, 1, 0), (True, 2, 0), (True, 3, 0), (True, 0, 2), (False, 0, 0), (True, 2, 3))])
    tres = pmap(_rust_tick_count, [(c,) for c in rs_cfgs])
    for r in res + sres + mres + tres:
        ctx.merge_bucket(r["vb"])
    ctx.coverage["machine_keyi_events"] = sum(r["n"] for r in mres)
    ctx.level = "model_checking"
    ctx.coverage.update({
        "states": sum(r["states"] for r in res),
        "transitions": sum(r["transitions"] for r in res) + sum(r["n"] for r in sres),
        "traces_validated_against_impl": sum(r["transitions"] for r in res) + len(sres) * 6,
        "configs": [{"impl": r["impl"], "cfg": list(r["cfg"]), "states": r["states"], "depth": r["depth"], "closed": r["closed"]} for r in res],
        "exhaustive": True,
        "rule": (f"BFS to depth {depth_py} (python) / {depth_rs} (rust) over press/release of 3 colliding keys (two share a row, "
                 "two share a column), 5 KOL strobe values, scan tick, KIL read; dedup on (per-key debounce state, KOL, KOH, FIFO); "
                 "every history replayed on the real KeyboardMatrix of each implementation and judged by the reference "
                 "automaton: event streams, KIL lower/upper bounds, FIFO capacity and drop-oldest, per-key event order; plus "
                 "scripted long runs (repeat cadence, chatter, strobe change mid-debounce, overflow burst, KOH column) and the "
                 "KEYI gating matrix (pending x enabled) through write_fifo_to_memory / _scan_keyboard_per_instruction"),
        "samples": [{"impl": r["impl"], "cfg": list(r["cfg"]), "history": r["sample"]} for r in res[:3]],
    })
    ctx.assumptions += ["the Rust matrix exposes only the press threshold; release/repeat settings are its defaults (6/24/6)",
                        "a Rust key-input read performs a scan; it is counted as a scan tick by the reference clocks"]


def replay(ctx, w) -> Optional[str]:
    rb.build()
    cfg = tuple(w["cfg"]) if w.get("impl") not in ("machine-keyi",) else ()
    vb = VB()
    if w["impl"] == "rust-tick-count":
        r = _rust_tick_count((tuple(w["cfg"]),))
        for sig, (cnt, wl) in r["vb"].d.items():
            return wl[0][0]
        return None
    if w["impl"] == "machine-keyi":
        prog, imr, timer, enabled = w["cfg"]
        r = _machine_keyi(([tuple(timer)],))
        for sig, (cnt, wl) in r["vb"].d.items():
            if w["machine"] in sig:
                return wl[0][0]
        return None
    if w["impl"] == "python-keyi":
        _py_keyi(cfg, vb)
    else:
        hist = tuple(tuple(e) for e in w["history"])
        if w["impl"] == "rust":
            resp = rb.harness().call(rs_req(cfg, hist))
            if any(e[0] in ("fifo2mem", "clr_isr") for e in hist):
                isr = resp["out"][-1]["isr"]
                return f"KEYI raised ISR={isr:#x}" if isr & 4 else None
            judge("rust", cfg, hist, rs_unpack(resp, hist), vb, read_scans=True, cap=8)
        else:
            hd = w["impl"] == "python-handler"
            judge(w["impl"], cfg, hist, run_py(cfg, hist, handler=hd), vb, read_scans=hd, cap=8)
    for sig, (cnt, wl) in vb.d.items():
        return wl[0][0]
    return None
