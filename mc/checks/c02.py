"""C02 — encode is the exact inverse of decode on every accepted instruction.

Domain (complete within the stated bounds):
  S  structural: 16 prefix choices x 256 opcodes x 256 second bytes x tails
  P  per-position sweep: for each (prefix, opcode, second-byte class) representative,
     every operand position p >= 2 below the decoded length x all 256 values
Oracle (metamorphic): encode(decode(b)) == b[:len]; decode(encoded) has the same
text, length and lifted IL; get_instruction_text never returns None (or a
different length) where get_instruction_info accepted.
"""
from __future__ import annotations

from typing import Any, Dict, List, Optional, Tuple

from .. import drv
from ..par import pmap, chunks
from ..core import nproc

ADDR = 0x1000


def _render(instr) -> str:
    return drv.asm_str(instr.render())


def _lift(instr, addr):
    il = drv.MockLowLevelILFunction()
    instr.lift(il, addr)
    return drv.il_canon(il)


def judge(data: bytes, addr: int, deep: bool, callbacks: bool) -> Tuple[str, Optional[Tuple[str, str]]]:
    """Return (outcome class, violation|None) for one byte string."""
    instr, err = drv.py_decode(data, addr)
    if instr is None:
        return "rejected", None
    ln = instr.length()
    opc = instr.opcode if instr.opcode is not None else -1
    pre = "pre" if getattr(instr, "_pre", None) is not None else "none"
    try:
        enc = bytes(drv.encode(instr, addr))
    except Exception as exc:  # noqa: BLE001
        return "accepted", (f"C02/encode-raises/{type(exc).__name__}/op={opc:02X}/{pre}",
                            f"encode() raised {type(exc).__name__}: {exc} for {data.hex()}")
    if enc != data[:ln]:
        return "accepted", (f"C02/encode-mismatch/op={opc:02X}/{pre}",
                            f"decode({data.hex()}) len={ln} re-encodes to {enc.hex()} != {data[:ln].hex()}")
    if deep:
        i2, err2 = drv.py_decode(enc, addr)
        if i2 is None:
            return "accepted", (f"C02/redecode-rejects/op={opc:02X}/{pre}",
                                f"encoded bytes {enc.hex()} of {data.hex()} do not decode ({err2})")
        if i2.length() != ln or _render(i2) != _render(instr):
            return "accepted", (f"C02/redecode-differs-text/op={opc:02X}/{pre}",
                                f"{data.hex()}: '{_render(instr)}'/{ln} vs '{_render(i2)}'/{i2.length()}")
        try:
            a, b = _lift(instr, addr), _lift(i2, addr)
        except Exception as exc:  # noqa: BLE001 - lifting failures belong to C01
            a = b = None
        if a != b:
            return "accepted", (f"C02/redecode-differs-il/op={opc:02X}/{pre}",
                                f"{data.hex()}: lifted IL differs after encode/decode round trip")
    if callbacks:
        try:
            info = drv.info_fp(data, addr)
            text = drv.text_fp(data, addr)
        except Exception as exc:  # noqa: BLE001 - unexpected errors belong to C01
            return "accepted", None
        if info is not None:
            if text is None:
                return "accepted", (f"C02/demoted-to-data/op={opc:02X}/{pre}",
                                    f"get_instruction_info accepts {data.hex()} (len {info[0]}) but "
                                    f"get_instruction_text returns None")
            if text[1] != info[0]:
                return "accepted", (f"C02/text-len-differs/op={opc:02X}/{pre}",
                                    f"{data.hex()}: info len {info[0]} text len {text[1]}")
    return "accepted", None


def _class_key(instr) -> Tuple:
    toks = instr.render()
    return (instr.length(), tuple(type(t).__name__ for t in toks))


def _ctx(pre, op, tails, deep_tails, sweep_fill, callbacks):
    """Everything needed to re-run the shard a witness was seen in (process-wide decode caches make the whole shard its history)."""
    return {"pre": pre, "op": op, "pairs": [list(p) for p in _CUR["pairs"]], "sweep_pres": [p for p in _CUR["sweep_pres"]], "tails": [t.hex() for t in tails], "deep_tails": deep_tails, "fill": sweep_fill.hex(), "callbacks": bool(callbacks)}


_CUR: Dict[str, Any] = {"pairs": [], "sweep_pres": []}


def _shard(args) -> Dict[str, Any]:
    pairs, tails, deep_tails, sweep_pres, sweep_fill, callbacks = args
    _CUR["pairs"], _CUR["sweep_pres"] = list(pairs), list(sweep_pres)
    ev = 0
    acc = 0
    viol: List[Tuple[str, str, Dict[str, Any]]] = []
    samples: List[str] = []
    sweep_ev = 0
    for pre, op in pairs:
        reps: Dict[Tuple, int] = {}
        for b2 in range(256):
            for ti, tail in enumerate(tails):
                head = (bytes([pre]) if pre is not None else b"") + bytes([op, b2])
                data = (head + tail)[: drv.MAXLEN]
                full = pre in sweep_pres
                cls, v = judge(data, ADDR, deep=full and ti < deep_tails, callbacks=full and callbacks and ti == 0)
                ev += 1
                if cls == "accepted":
                    acc += 1
                    if ti == 0:
                        instr, _ = drv.py_decode(data, ADDR)
                        reps.setdefault(_class_key(instr), b2)
                if v:
                    viol.append((v[0], v[1], {"bytes": data.hex(), "addr": ADDR}))
        if pre in sweep_pres:
            for key, b2 in reps.items():
                ln = key[0]
                head = (bytes([pre]) if pre is not None else b"") + bytes([op, b2])
                base = bytearray((head + sweep_fill)[: drv.MAXLEN])
                last_d = bytes(base)
                for p in range(len(head), min(ln, drv.MAXLEN)):
                    for val in range(256):
                        d = bytearray(base)
                        d[p] = val
                        last_d = bytes(d)
                        # the architecture callbacks see every variant of the longest encodings at one address
                        cls, v = judge(bytes(d), ADDR, deep=False, callbacks=callbacks and ln >= 6)
                        sweep_ev += 1
                        if cls == "accepted":
                            acc += 1
                        if v:
                            # the whole sweep is the witness: a violation may depend on the variants decoded before it
                            viol.append((v[0] + "/sweep", v[1], {"bytes": bytes(d).hex(), "addr": ADDR, "sweep_base": bytes(base).hex(),
                                                                 "pos": p, "ln": ln, "callbacks": bool(callbacks), "ctx": _ctx(pre, op, tails, deep_tails, sweep_fill, callbacks)}))
                # the same instruction followed by one that shares prefix/opcode but differs in its operand bytes
                # (the decoder looks ahead at the follower): the round trip must still return the first one
                first = bytes(base[:ln])
                if ln > len(head) - 1:
                    for flip in (0x01, 0x04, 0x21, 0xFF):
                        fol = head[:-1] + bytes([b2 ^ flip]) + bytes(x ^ 0xA5 for x in first[len(head):]) + sweep_fill
                        cls, v = judge(first + fol, ADDR, deep=False, callbacks=callbacks)
                        sweep_ev += 1
                        if v:
                            viol.append((v[0] + "/same-opcode-follower", v[1], {"bytes": (first + fol).hex(), "addr": ADDR, "prior": [bytes(base).hex(), last_d.hex()], "ctx": _ctx(pre, op, tails, deep_tails, sweep_fill, callbacks)}))
                # the same representative at addresses where it touches or straddles the end of a 64 KiB page and the end of the
                # address space: the round trip is required "for every address"
                for a2 in sorted({(top - k) & 0xFFFFF for top in (0x10000, 0x30000, 0x100000) for k in (0, 1, ln - 1, ln, ln + 1) if k >= 0}):
                    cls, v = judge(bytes(base), a2, deep=False, callbacks=callbacks)
                    sweep_ev += 1
                    if v:
                        viol.append((v[0] + "/page-end", v[1] + f" @ {a2:#x}", {"bytes": bytes(base).hex(), "addr": a2}))
                if len(samples) < 2 and ln >= 4:
                    samples.append(f"sweep base={bytes(base).hex()} positions {len(head)}..{ln - 1} x 256 values")
    return {"ev": ev, "acc": acc, "sweep_ev": sweep_ev, "viol": viol, "samples": samples}


def run(ctx) -> None:
    seedtail = bytes(((ctx.seed * 2654435761 + 97 * i + 0x3D) >> 3) & 0xFF for i in range(5))
    if ctx.thorough:
        tails = [drv.TAILS["mix"], drv.TAILS["00"], drv.TAILS["ff"], drv.TAILS["alt"], seedtail]
        deep_tails = 2
        sweep_pres = set(drv.PRE_CHOICES)
        callbacks = True
    else:
        tails = [bytes(a ^ b for a, b in zip(drv.TAILS["mix"], seedtail))] if ctx.seed else [drv.TAILS["mix"]]
        deep_tails = 1
        sweep_pres = {None, 0x32, 0x25, drv.PRE_BYTES[ctx.seed % len(drv.PRE_BYTES)]}
        callbacks = True
    pairs = [(pre, op) for pre in drv.PRE_CHOICES for op in range(256)]
    shards = chunks(pairs, nproc() * 8)
    res = pmap(_shard, [(s, tails, deep_tails, sweep_pres, drv.TAILS["alt"], callbacks) for s in shards])
    ev = sum(r["ev"] + r["sweep_ev"] for r in res)
    acc = sum(r["acc"] for r in res)
    for r in res:
        ctx.merge_violations(r["viol"])
    ctx.level = "exploration"
    ctx.coverage.update({
        "evaluations": ev,
        "distinct_nontrivial": acc,
        "structural_shapes": sum(r["ev"] for r in res),
        "position_sweep_inputs": sum(r["sweep_ev"] for r in res),
        "exhaustive": True,
        "rule": ("every (prefix choice in none+15 PRE bytes) x opcode x second byte x "
                 f"{len(tails)} operand tails as 7-byte buffers, plus for one representative per "
                 "(prefix, opcode, rendered-token-shape) every operand position below the decoded length "
                 f"x 256 values (prefix set for the sweep: {sorted(str(p) for p in sweep_pres)}); "
                 "distinct_nontrivial counts the distinct inputs the decoder accepted (round trip judged); "
                 "rejected inputs are trivial"),
        "samples": [s for r in res for s in r["samples"]][:4] + [
            "structural: " + (bytes([0x32, 0x10, 0x20]) + tails[0])[:7].hex(),
            "structural: " + (bytes([0xE0, 0x34]) + tails[0])[:7].hex()],
    })
    ctx.assumptions += [
        "operand bytes are raw immediates unless a per-position sweep shows otherwise; sweep covers every position of one representative per rendered shape",
        "binja_test_mocks Decoder/Encoder are trusted",
    ]


def replay(ctx, witness, sig=None) -> Optional[str]:
    data = bytes.fromhex(witness["bytes"])
    if "ctx" in witness and sig:
        # history-dependent violations (decode caches): re-run everything the shard did for this prefix/opcode, in order
        c = witness["ctx"]
        r = _shard(([tuple(p) for p in c["pairs"]], [bytes.fromhex(t) for t in c["tails"]], c["deep_tails"], set(c["sweep_pres"]), bytes.fromhex(c["fill"]), c["callbacks"]))
        for s_, what, _w in r["viol"]:
            if s_ == sig:
                return "[in the decode history of its prefix/opcode sweep] " + what
        return None
    if "sweep_base" not in witness:
        for pr in witness.get("prior", []):      # inputs decoded at the same address before this one
            judge(bytes.fromhex(pr), witness.get("addr", ADDR), deep=False, callbacks=True)
        _, v = judge(data, witness.get("addr", ADDR), deep=not witness.get("prior"), callbacks=True)
        return v[1] if v else None
    if True:
        # history-dependent: replay the sweep the violation was seen in (same order, same address) in this fresh process
        base = bytearray.fromhex(witness["sweep_base"])
        cb = witness.get("callbacks", True) and witness.get("ln", 0) >= 6
        judge(bytes(base), witness.get("addr", ADDR), deep=False, callbacks=cb)     # the sweeps of earlier positions pass through the base
        for val in range(256):
            d = bytearray(base)
            d[witness["pos"]] = val
            _, v = judge(bytes(d), witness.get("addr", ADDR), deep=False, callbacks=witness.get("callbacks", True) and witness.get("ln", 0) >= 6)
            if v and bytes(d) == data:
                return "[as seen in its sweep: base, then the variants in order, at one address] " + v[1]
    _, v = judge(data, witness.get("addr", ADDR), deep=True, callbacks=True)
    return v[1] if v else None
