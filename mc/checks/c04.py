"""C04 — lifted IL computes the documented result and flags for every operand value.

Exhaustive enumeration against the README-derived reference interpreter (spec/isa.py):
  A  every structural shape x state palette: destination, C/Z, pointer/counter/stack side effects, frame condition
  B  8-bit ALU / shift / BCD mnemonics on a canonical encoding x ALL (a, b, carry-in) values (2^17 per operation;
     valid packed-BCD pairs for DADL/DSBL)
  C  16/20/24-bit forms x full cross product of a boundary palette
  D  counted forms, I in 1..4 x byte palettes (carry chains, BCD chains, decimal shifts, block moves incl. overlap)
  E  stack and call/return families at ordinary and wrap positions
"""
from __future__ import annotations

import itertools
from typing import Any, Dict, List, Optional, Tuple

from ..core import VB, nproc
from ..par import pmap, chunks
from .. import drv, shapes
from .. import isacheck as I
from ..spec.operands import pre_table_diffs
from . import c03

IMEM = 0x100000
BASE_REGS = {"BA": 0x0000, "I": 1, "X": 0x20100, "Y": 0x20200, "U": 0x30000, "S": 0x40000, "F": 0}
PAL16 = [0, 1, 0x7F, 0x80, 0xFF, 0x100, 0x7FFF, 0x8000, 0xFFFF]
PAL20 = PAL16 + [0x10000, 0x7FFFF, 0x80000, 0xFFFFF]
BYTES9 = [0x00, 0x01, 0x09, 0x10, 0x7F, 0x80, 0x99, 0xFE, 0xFF]
BYTES4 = [0x00, 0x01, 0x99, 0xFF]
BCD9 = [0x00, 0x01, 0x09, 0x10, 0x45, 0x50, 0x90, 0x98, 0x99]


def judge(c: I.Case, vb: VB, part: str) -> str:
    o = I.run_case(c)
    if part == "A" and getattr(o, "ops", None) is not None and o.ins is not None:
        # the reference interprets the rendered operands; for `(m),(n)` under a prefix byte the operands themselves are fixed by the
        # documented prefix table, so a result computed from another cell than the table names is a wrong result
        t = pre_table_diffs(getattr(o.ins, "_pre", None), o.ops)
        for kind, what in t:
            vb.add(f"C04/{kind}/{o.mn}/op={o.ins.opcode:02X}/pre={o.ins._pre:02X}", f"[A] {c.data.hex()} '{o.text}': {what}", c.witness)
        if t:
            return "bad"
    if o.skip:
        return "skip"
    d = I.value_diffs(o, c, o.ref)
    if d and o.ref_alt is not None:
        d2 = I.value_diffs(o, c, o.ref_alt)
        if not d2:
            d = []
    if not d:
        return "ok"
    tag = c03.sig_tag(o, c.data)
    for kind, what in d:
        if kind == "flag:C" and o.mn in ("ADC", "SBC", "ADCL", "SBCL") and "source-all-ones-with-carry-in" not in o.ref.notes:
            # the recorded carry finding needs a source byte of all ones together with a carry-in; a wrong carry for any other
            # input is a different defect and gets its own signature
            kind = "flag:C/other-inputs"
        vb.add(f"C04/{kind}/{tag}", f"[{part}] {c.data.hex()} '{o.text}' BA={c.regs.get('BA', 0):#x} I={c.regs.get('I', 0)} "
                                    f"F={c.regs.get('F', 0)}: {what}", c.witness)
    return "bad"


PTR_OPS = set(range(0x90, 0x97)) | set(range(0xB0, 0xB7)) | set(range(0x98, 0x9F)) | set(range(0xB8, 0xBF)) | \
    {0xE0, 0xE1, 0xE2, 0xE8, 0xE9, 0xEA, 0xF0, 0xF1, 0xF2, 0xF8, 0xF9, 0xFA, 0x56, 0x5E, 0xE3, 0xEB}


def _shard_a(args):
    pairs, tail, sts = args
    vb = VB()
    n = ok = 0
    for pre, op in pairs:
        for shape_no, d in enumerate(shapes.shapes_for(pre, op, tail)):
            ins, _ = drv.py_decode(d, I.CODE)
            d = d[: ins.length()]
            for st in sts:
                r = judge(c03.make_case(d, st, ins.name()), vb, "A")
                n += 1
                ok += r == "ok"
            if op in PTR_OPS and len(d) >= 2:
                # the same instruction with, behind it in memory, one that shares its prefix and opcode but names another register /
                # cell (the fetch path decodes ahead): what the first one computes must not change
                c = c03.make_case(d, sts[0], ins.name())
                k = 2 if pre is not None else 1
                sib = d[:k] + bytes([d[k] ^ 0x01]) + bytes(x ^ 0x21 for x in d[k + 1:]) + bytes.fromhex("00000000")
                for i, b in enumerate(sib):
                    c.mem[(c.addr + len(d) + i) & 0xFFFFFF] = b
                r = judge(c, vb, "A")
                n += 1
                ok += r == "ok"
            # counted transfers with more than 256 elements: the count ends at 0 and an auto-modified pointer moves by I
            if ins.name() in ("MVL", "MVLD"):
                for big in c03.LARGE_I + ((c03.HUGE_I,) if pre is None and shape_no % 8 == 4 else ()):
                    c, o = c03.large_case(d, sts[0], ins.name(), big)
                    n += 1
                    if o.skip:
                        continue
                    _acc, val = I.large_count_diffs(o, c)
                    ok += not val
                    for kind, what in val:
                        w = c.witness()
                        w["large_count"] = True
                        vb.add(f"C04/{kind}/{c03.sig_tag(o, d)}", f"[A] {d.hex()} '{o.text}': {what}", w)
    return {"n": n, "judged": ok, "vb": vb}


# ---- B: full 8-bit sweeps ---------------------------------------------------------------------------

ALU8 = {"ADD": 0x40, "SUB": 0x48, "ADC": 0x50, "SBC": 0x58, "AND": 0x70, "OR": 0x78, "XOR": 0x68, "CMP": 0x60, "TEST": 0x64}
UNARY = {"ROR": 0xE4, "ROL": 0xE6, "SHR": 0xF4, "SHL": 0xF6, "SWAP": 0xEE}


def _shard_b(args):
    kind, name, a_values, full = args
    vb = VB()
    n = 0
    if kind == "alu":
        bs = range(256) if full else sorted(set(list(range(0, 256, 8)) + [0x7F, 0x80, 0xFF, 0xFE, 0x01]))
        for a in a_values:
            for b in bs:
                for cin in (0, 1):
                    regs = dict(BASE_REGS, BA=0x5A00 | a, F=cin)
                    judge(I.Case(bytes([ALU8[name], b]), regs, {}, 0), vb, "B")
                    n += 1
    elif kind == "alu_mem":       # op (m),(n) style through ADCL/SBCL with I=1 : memory operands, Z from a single byte
        opc = {"ADCL": 0x54, "SBCL": 0x5C}[name]
        bs = range(256) if full else sorted(set(list(range(0, 256, 8)) + [0x7F, 0x80, 0xFF, 0xFE, 0x01]))
        for a in a_values:
            for b in bs:
                for cin in (0, 1):
                    regs = dict(BASE_REGS, F=cin, I=1)
                    mem = {IMEM + 0x10: a, IMEM + 0x20: b}
                    judge(I.Case(bytes([0x32, opc, 0x10, 0x20]), regs, mem, 0), vb, "B")
                    n += 1
    elif kind == "bcd":
        opc = {"DADL": 0xC4, "DSBL": 0xD4}[name]
        digits = [((t // 10) << 4) | (t % 10) for t in range(100)]
        for a in a_values:
            if a >= 100:
                continue
            for b in (digits if full else digits[::3] + [0x99, 0x50, 0x49]):
                for cin in (0, 1):
                    regs = dict(BASE_REGS, F=cin, I=1)
                    mem = {IMEM + 0x10: digits[a], IMEM + 0x20: b}
                    judge(I.Case(bytes([0x32, opc, 0x10, 0x20]), regs, mem, 0), vb, "B")
                    n += 1
    elif kind == "unary":
        for a in a_values:
            for cin in (0, 1):
                regs = dict(BASE_REGS, BA=0xA500 | a, F=cin)
                judge(I.Case(bytes([UNARY[name]]), regs, {}, 0), vb, "B")
                n += 1
                # memory form: ROR (n) etc. is opcode+1
                judge(I.Case(bytes([0x32, UNARY[name] + 1, 0x10]), dict(BASE_REGS, F=cin), {IMEM + 0x10: a}, 0), vb, "B") if name != "SWAP" else None
                n += 1
    elif kind == "incdec":
        for a in a_values:
            for f in (0, 3):
                for opc in (0x6C, 0x7C):
                    judge(I.Case(bytes([opc, 0x00]), dict(BASE_REGS, BA=0x1100 | a, F=f), {}, 0), vb, "B")      # INC/DEC A
                    judge(I.Case(bytes([opc, 0x01]), dict(BASE_REGS, I=0x2200 | a, F=f), {}, 0), vb, "B")       # INC/DEC IL
                    judge(I.Case(bytes([0x32, opc + 1, 0x10]), dict(BASE_REGS, F=f), {IMEM + 0x10: a}, 0), vb, "B")  # INC/DEC (n)
                    n += 3
    elif kind == "pmdf":
        for a in a_values:
            for b in (range(256) if full else range(0, 256, 5)):
                judge(I.Case(bytes([0x32, 0x47, 0x10, b]), dict(BASE_REGS, F=1), {IMEM + 0x10: a}, 0), vb, "B")
                n += 1
    return {"n": n, "judged": n, "vb": vb}


# ---- C: wide forms -----------------------------------------------------------------------------------

def _shard_c(args):
    which, = args
    vb = VB()
    n = 0
    if which == "add_sub_r2":
        for opc in (0x44, 0x4C):
            for a, b, f in itertools.product(PAL16, PAL16, (0, 1)):
                judge(I.Case(bytes([opc, 0x23]), dict(BASE_REGS, BA=a, I=b, F=f), {}, 0), vb, "C")     # ADD/SUB BA, I
                n += 1
    elif which == "add_sub_r3":
        for opc in (0x45, 0x4D):
            for a, b, f in itertools.product(PAL20, PAL20, (0, 1)):
                judge(I.Case(bytes([opc, 0x45]), dict(BASE_REGS, X=a, Y=b, F=f), {}, 0), vb, "C")      # ADD/SUB X, Y
                n += 1
            for a, b in itertools.product(PAL20, PAL16):
                judge(I.Case(bytes([opc, 0x42]), dict(BASE_REGS, X=a, BA=b), {}, 0), vb, "C")          # ADD/SUB X, BA
                judge(I.Case(bytes([opc, 0x40]), dict(BASE_REGS, X=a, BA=b), {}, 0), vb, "C")          # ADD/SUB X, A
                n += 2
    elif which == "incdec_wide":
        for opc in (0x6C, 0x7C):
            for v in PAL16:
                for sel, reg in ((2, "BA"), (3, "I")):
                    judge(I.Case(bytes([opc, sel]), dict(BASE_REGS, **{reg: v}, F=1), {}, 0), vb, "C")
                    n += 1
            for v in PAL20:
                for sel, reg in ((4, "X"), (5, "Y"), (6, "U"), (7, "S")):
                    judge(I.Case(bytes([opc, sel]), dict(BASE_REGS, **{reg: v}, F=2), {}, 0), vb, "C")
                    n += 1
    elif which == "cmpw_cmpp":
        for a, b in itertools.product(PAL16, PAL16):
            mem = {IMEM + 0x10: a & 0xFF, IMEM + 0x11: a >> 8, IMEM + 0x20: b & 0xFF, IMEM + 0x21: b >> 8}
            judge(I.Case(bytes([0x32, 0xC6, 0x10, 0x20]), dict(BASE_REGS, F=0), mem, 0), vb, "C")           # CMPW (m),(n)
            judge(I.Case(bytes([0x32, 0xD6, 0x02, 0x10]), dict(BASE_REGS, BA=b), mem, 0), vb, "C")          # CMPW (m),BA
            n += 2
        for a, b in itertools.product(PAL20 + [0xFFFFFF, 0x100000], PAL20 + [0xFFFFFF]):
            mem = {}
            for k in range(3):
                mem[IMEM + 0x10 + k] = (a >> (8 * k)) & 0xFF
                mem[IMEM + 0x20 + k] = (b >> (8 * k)) & 0xFF
            judge(I.Case(bytes([0x32, 0xC7, 0x10, 0x20]), dict(BASE_REGS), mem, 0), vb, "C")               # CMPP (m),(n)
            n += 1
    elif which == "mv_wide":
        for v in PAL20:
            for opc, reg in ((0x0C, "X"), (0x0D, "Y"), (0x0E, "U"), (0x0F, "S")):
                judge(I.Case(bytes([opc, v & 0xFF, (v >> 8) & 0xFF, (v >> 16) & 0x0F]), dict(BASE_REGS), {}, 0), vb, "C")
                n += 1
            judge(I.Case(bytes([0xFD, 0x45]), dict(BASE_REGS, Y=v), {}, 0), vb, "C")         # MV X,Y
            judge(I.Case(bytes([0xED, 0x45]), dict(BASE_REGS, X=v, Y=0x12345), {}, 0), vb, "C")  # EX X,Y
            n += 2
        for v in PAL16:
            judge(I.Case(bytes([0x0A, v & 0xFF, v >> 8]), dict(BASE_REGS), {}, 0), vb, "C")
            judge(I.Case(bytes([0x0B, v & 0xFF, v >> 8]), dict(BASE_REGS), {}, 0), vb, "C")
            judge(I.Case(bytes([0x09, v & 0xFF]), dict(BASE_REGS, I=0xABCD), {}, 0), vb, "C")   # MV IL,n clears IH
            judge(I.Case(bytes([0xFD, 0x23]), dict(BASE_REGS, I=v), {}, 0), vb, "C")            # MV BA,I
            n += 4
    return {"n": n, "judged": n, "vb": vb}


# ---- D: counted forms ----------------------------------------------------------------------------------

def _shard_d(args):
    name, thorough, counts = args
    vb = VB()
    n = 0
    def run_block(code: bytes, count: int, a_bytes, b_bytes, f: int, regs_extra=None, a_at=0x40, b_at=0x60, down=False, fill=0):
        mem = {}
        for k, v in enumerate(a_bytes):
            mem[IMEM + (a_at - k if down else a_at + k)] = v
        for k, v in enumerate(b_bytes):
            mem[IMEM + (b_at - k if down else b_at + k)] = v
        regs = dict(BASE_REGS, I=count, F=f)
        if regs_extra:
            regs.update(regs_extra)
        return judge(I.Case(code, regs, mem, fill), vb, "D")
    if name in ("ADCL", "SBCL", "DADL", "DSBL"):
        opc = {"ADCL": 0x54, "SBCL": 0x5C, "DADL": 0xC4, "DSBL": 0xD4}[name]
        down = name in ("DADL", "DSBL")
        pal2 = BCD9 if down else BYTES9
        pal4 = [0x00, 0x01, 0x50, 0x99] if down else BYTES4
        for count in counts:
            pal = pal2 if count <= 2 else pal4
            if count > 2 and not thorough:
                pal = pal[:3] if not down else [0x00, 0x50, 0x99]
            for a in itertools.product(pal, repeat=count):
                for b in itertools.product(pal, repeat=count):
                    for f in (0, 1):
                        run_block(bytes([0x32, opc, 0x40, 0x60]), count, a, b, f, down=down)
                        n += 1
            # register source form: (n),A
            for a in itertools.product(pal, repeat=count):
                for av in pal2:
                    for f in (0, 1):
                        run_block(bytes([0x32, opc + 1, 0x40]), count, a, (), f, regs_extra={"BA": 0x7700 | av}, down=down)
                        n += 1
    elif name in ("DSLL", "DSRL"):
        opc = {"DSLL": 0xEC, "DSRL": 0xFC}[name]
        for count in counts:
            pal = BCD9 if count <= 2 else [0x00, 0x01, 0x90, 0x99]
            for a in itertools.product(pal, repeat=count):
                for f in (0, 3):
                    run_block(bytes([0x32, opc, 0x40]), count, a, (), f, down=(name == "DSLL"))
                    n += 1
    elif name in ("MVL", "MVLD", "EXL"):
        forms = {
            "MVL": [bytes([0x32, 0xCB, 0x40, 0x60]), bytes([0x32, 0xCB, 0x40, 0x41]), bytes([0x32, 0xCB, 0x41, 0x40]),
                    bytes([0x32, 0xE3, 0x24, 0x40]), bytes([0x32, 0xEB, 0x24, 0x40]), bytes([0x32, 0xD3, 0x40, 0x00, 0x02, 0x02]),
                    bytes([0x32, 0xDB, 0x00, 0x03, 0x02, 0x40]), bytes([0x32, 0x56, 0x84, 0x40, 0x05]), bytes([0x32, 0x5E, 0xC4, 0x40, 0x05]),
                    bytes([0x32, 0xF3, 0x00, 0x40, 0x60]), bytes([0x32, 0xFB, 0x80, 0x60, 0x40, 0x03])],
            "MVLD": [bytes([0x32, 0xCF, 0x44, 0x64]), bytes([0x32, 0xCF, 0x44, 0x43]), bytes([0x32, 0xCF, 0x43, 0x44])],
            "EXL": [bytes([0x32, 0xC3, 0x40, 0x60]), bytes([0xC3, 0x40, 0x60])],
        }[name]
        for code in forms:
            for count in counts:
                for f in (0, 3):
                    for fill in (0x101, 0x102):
                        regs = dict(BASE_REGS, I=count, F=f)
                        mem = {IMEM + 0xEC: 0x08, IMEM + 0x60: 0x00, IMEM + 0x61: 0x05, IMEM + 0x62: 0x02}
                        judge(I.Case(code, regs, mem, fill), vb, "D")
                        n += 1
    return {"n": n, "judged": n, "vb": vb}


# ---- E: stack / calls ------------------------------------------------------------------------------------

def _shard_e(args):
    sp_values, = args
    vb = VB()
    n = 0
    for sp in sp_values:
        for f in (0, 1, 2, 3):
            for opc in list(range(0x28, 0x30)) + list(range(0x38, 0x40)) + [0x4F, 0x5F]:
                regs = dict(BASE_REGS, BA=0xA1B2, I=0xC3D4, X=0x5E6F7, Y=0x18293, U=sp, S=sp ^ 0x10000, F=f)
                judge(I.Case(bytes([opc]), regs, {IMEM + 0xFB: 0xC5}, 0x105), vb, "E")
                n += 1
            for code in (bytes([0x04, 0x45, 0x23]), bytes([0x05, 0x45, 0x23, 0x01]), bytes([0x06]), bytes([0x07]), bytes([0x01]), bytes([0xFE])):
                for addr in (0x1000, 0x2FFF0):
                    regs = dict(BASE_REGS, S=sp, U=sp ^ 0x8000, F=f)
                    judge(I.Case(code, regs, {IMEM + 0xFB: 0x8F}, 0x106, addr=addr), vb, "E")
                    n += 1
    return {"n": n, "judged": n, "vb": vb}


def _dispatch(job):
    k, args = job
    return {"a": _shard_a, "b": _shard_b, "c": _shard_c, "d": _shard_d, "e": _shard_e}[k](args)


def run(ctx) -> None:
    n = nproc()
    pres = list(drv.PRE_CHOICES) if ctx.thorough else [None, 0x32, 0x25, 0x37, drv.PRE_BYTES[ctx.seed % 15]]
    pairs = [(p, op) for p in dict.fromkeys(pres) for op in range(256) if not (p is None and op in drv.PRE_BYTES)]
    tail = bytes.fromhex("3404050607")
    sts = c03.states(ctx.thorough, ctx.seed)
    jobsA = [("a", (sh, tail, sts)) for sh in chunks(pairs, n * 4)]
    # B
    names = list(ALU8)
    full_set = set(names) if ctx.thorough else {names[ctx.seed % len(names)]}
    grid_a = sorted(set(list(range(0, 256, 4)) + [0x7F, 0x81, 0xFF, 0xFE, 0x01]))
    jobs = []
    for nm in names:
        if nm in full_set:
            for av in chunks(list(range(256)), 16):
                jobs.append(("alu", nm, av, True))
        else:
            for av in chunks(grid_a, 2):
                jobs.append(("alu", nm, av, False))
    for nm in ("ADCL", "SBCL"):
        for av in chunks(list(range(256)) if ctx.thorough else grid_a, 8 if ctx.thorough else 2):
            jobs.append(("alu_mem", nm, av, ctx.thorough))
    for nm in ("DADL", "DSBL"):
        for av in chunks(list(range(100)), 4):
            jobs.append(("bcd", nm, av, ctx.thorough))
    for nm in UNARY:
        jobs.append(("unary", nm, list(range(256)), True))
    jobs.append(("incdec", "INC/DEC", list(range(256)), True))
    for av in chunks(list(range(256)), 4):
        jobs.append(("pmdf", "PMDF", av, ctx.thorough))
    jobsB = [("b", j) for j in jobs]
    jobsC = [("c", (w,)) for w in ("add_sub_r2", "add_sub_r3", "incdec_wide", "cmpw_cmpp", "mv_wide")]
    jobsD = [("d", (nm, ctx.thorough, (cnt,))) for nm in ("ADCL", "SBCL", "DADL", "DSBL", "DSLL", "DSRL", "MVL", "MVLD", "EXL")
             for cnt in (1, 2, 3, 4)]
    jobsE = [("e", (sv,)) for sv in chunks([0x40000, 0x30005, 0x0FFFF, 0x10000, 0x00003, 0xFFFFE, 0xB8000, 0x7FFFF], 8)]
    # heavy jobs first so the pool stays busy
    alljobs = jobsD + jobsA + jobsB + jobsC + jobsE
    allres = pmap(_dispatch, alljobs)
    by = {"a": [], "b": [], "c": [], "d": [], "e": []}
    for (k, _), r in zip(alljobs, allres):
        by[k].append(r)
    resA, resB, resC, resD, resE = by["a"], by["b"], by["c"], by["d"], by["e"]
    for r in resA + resB + resC + resD + resE:
        ctx.merge_bucket(r["vb"])
    total = sum(r["n"] for r in resA + resB + resC + resD + resE)
    ctx.level = "exploration"
    ctx.coverage.update({
        "evaluations": total,
        "distinct_nontrivial": sum(r["judged"] for r in resA + resB + resC + resD + resE),
        "part_A_shape_cases": sum(r["n"] for r in resA),
        "part_B_value_sweeps": sum(r["n"] for r in resB),
        "part_C_wide": sum(r["n"] for r in resC),
        "part_D_counted": sum(r["n"] for r in resD),
        "part_E_stack_calls": sum(r["n"] for r in resE),
        "full_2^17_sweeps": sorted(full_set),
        "exhaustive": True,
        "rule": ("A: every structural shape (prefix set) x C03's state palette, all registers/flags/memory compared with the reference "
                 "(frame condition included); B: per 8-bit operation all a x b x carry (complete 2^17 for the listed operations, a 37-value "
                 "b grid for the others in quick), all valid packed-BCD pairs x carry for DADL/DSBL, all a x carry for rotates/shifts/"
                 "SWAP/INC/DEC in register and memory form, PMDF; C: full cross product of a 9/13-value boundary palette for 16/20-bit "
                 "ADD/SUB/INC/DEC/CMPW/CMPP/MV/EX; D: I in 1..4 x byte palettes for ADCL/SBCL/DADL/DSBL (memory and A source), "
                 "DSLL/DSRL, MVL/MVLD/EXL forms incl. overlapping ranges; E: all PUSH/POP encodings and CALL/CALLF/RET/RETF/RETI/IR at 8 "
                 "stack positions incl. wrap. distinct_nontrivial = cases with a documented meaning that were judged."),
        "samples": [{"part": "B", "bytes": "50ff", "A": "0x34", "carry": 1}, {"part": "D", "bytes": "32c44060", "I": 3},
                    {"part": "E", "bytes": "fe", "S": "0x00003"}],
    })
    ctx.assumptions += ["16/20/24-bit operands come from boundary palettes, not all values",
                        "outputs the README leaves open are not compared: C after SWAP, C/Z after HALT/OFF, RESET vector and the IMR/ISR "
                        "ambiguity, DADL carry-in (accepted with or without), F bits 2..7"]


def replay(ctx, w) -> Optional[str]:
    c = I.Case.from_witness(w)
    vb = VB()
    if w.get("large_count"):
        o = I.run_case(c, large_count=True)
        if o.skip:
            return None
        _acc, val = I.large_count_diffs(o, c)
        return f"'{o.text}': {val[0][1]}" if val else None
    judge(c, vb, "A")
    for sig, (cnt, wl) in vb.d.items():
        return wl[0][0]
    return None
