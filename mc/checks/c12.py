"""C12 — interrupts are taken only when enabled and pending, and are undone by RETI.

Deviation-bounded explicit-state search on both machine models (Rust CoreRuntime through the harness,
Python PCE500Emulator) over a product of small firmware programs x handlers x initial masks x timer periods.
Every transition executes the real step / key / ON-key entry points; monitors (written from the statement)
judge each transition from the state before and after it.
"""
from __future__ import annotations

from typing import Any, Dict, List, Optional, Tuple

from ..core import VB, nproc
from ..par import pmap, chunks
from .. import machine as M
from .. import rustbridge as rb

PROGRAMS = {
    "nop": "00001304",
    "halt": "de001304",
    "off": "df001304",
    "wait": "0b0300ef1306",
    "imr_on": "ccfb8f001303",
    "imr_toggle": "ccfb0000ccfb8f00130a",
    "imr_word": "cdfa00000000cdfa008f00130d",          # MVW (FA),0000 ; NOP NOP ; MVW (FA),8F00 ; NOP ; JR start   (the mask is rewritten by a word store that begins one byte below it)
    "imr_mti": "ccfb820000ccfb8300130b",            # MV (FB),82 ; NOP NOP ; MV (FB),83 ; NOP ; JR start   (only the MTI mask bit is toggled; STI stays enabled, keyboard masked)
    "imr_unmask": "00" * 36 + "79fb01" + "00" * 6 + "1306",   # 36 x NOP ; OR (FB),01 ; NOP sled (loops in itself): MTI is unmasked once, late, and stays unmasked
    "fhi": "08b7283e00001307",                      # MV A,B7 ; PUSHU A ; POPU F ; NOP NOP ; JR start   (all eight bits of F are loaded from the stack; C16)
    "isr_clear": "ccfc00001306",
    "ir": "fe001304",
    "clr_halt": "ccfc00de1306",                    # MV (FC),0 ; HALT ; JR start   (a polled, masked request is acknowledged, then the CPU halts)
    "lcd": "083fa800a00008b9a800a000130e",           # MV A,3F ; MV [0A000],A ; MV A,B9 ; MV [0A000],A ; JR start   (display on, page set, VRAM untouched)
    "wait_scaled": "0b0300ef1306",                  # the WAIT loop on a machine built with timer_scale=0.25 (Python constructor switch; C16 only)
    "isr_hi_halt": "ccfc10de0000001309",              # MV (FC),10 ; HALT ; NOP x3 ; JR start   (a status bit other than MTI/STI/KEY/ONK is pending)
    "zflag": "08017c001306",                         # MV A,1 ; DEC A ; JR start   (Z is set whenever an interrupt arrives)
    "romw": "085aa8000c0ca80010007c00130c",       # MV A,5A ; MV [C0C00],A ; MV [01000],A ; ... stores into the ROM window and the read-only low range
    "rst": "000000ff1306",                           # NOP NOP NOP RESET (-> reset vector -> start)   (timers must keep their boundaries)
    "xram": "085aa8ff7f057c001308",                  # MV A,5A ; MV [57FFF],A ; DEC A ; JR ...   (last byte of a RAM expansion overlay, Python only)
    "card": "085aa8ffff047c001308",                  # MV A,5A ; MV [4FFFF],A ; DEC A ; JR ...   (last byte of the card window is written)
}
HANDLERS = {
    "reti": "0001",
    "clr": "00ccfc0001",
    "nest": "00ccfb8f0001",
    "long": "00000001",
    "bp": "0032ccec4001",          # NOP ; MV (EC),40 (direct) ; RETI   -- BP is non-zero when the return restores the mask
}
IMRS = [0x00, 0x80, 0x81, 0x82, 0x84, 0x88, 0x8F, 0x0F]
TIMERS = [(False, 0, 0), (True, 1, 0), (True, 2, 0), (True, 3, 0), (True, 4, 0), (True, 0, 2), (True, 0, 3), (True, 2, 3)]
EVENTS = [("step",), ("press_on",), ("release_on",), ("press", "KEY_Q"), ("release", "KEY_Q"), ("inject", "KEY_Q", 0)]
VECTOR = M.HANDLER


def code_at(cfg, addr: int) -> Optional[int]:
    for a, d in cfg["rom"].items():
        if a <= addr < a + len(d):
            return d[addr - a]
    if M.ROM_BASE <= addr <= 0xFFFFF:
        return 0
    return None


def boundaries(cfg) -> set:
    """Instruction start addresses of the main program and the handler (all opcodes used have fixed lengths)."""
    lens = {0x00: 1, 0x01: 1, 0x13: 2, 0xDE: 1, 0xDF: 1, 0xEF: 1, 0x0B: 3, 0xCC: 3, 0xCD: 4, 0xFE: 1}
    out = set()
    for base in (M.MAIN, M.HANDLER):
        d = cfg["rom"][base]
        i = 0
        while i < len(d):
            out.add(base + i)
            i += lens.get(d[i], 1)
        out.add(base + len(d))
    return out


def canon(o, mon) -> Tuple:
    r = o["regs"]
    cyc = o["cycles"]
    return (tuple(r[n] for n in ("PC", "S", "F", "BA", "I", "X", "Y", "U")), o["imem"], o["power"],
            tuple(m[1] for m in o["mem"]), (o["next_mti"] - cyc) if o["timer_enabled"] else -1,
            (o["next_sti"] - cyc) if o["timer_enabled"] else -1, o["in_interrupt"], o["irq_pending"], o["key_latched"],
            tuple(o["fifo"]), mon)


def stack_bytes(o, addr: int, n: int) -> Optional[bytes]:
    for a, d in o["mem"]:
        if a <= addr and addr + n <= a + len(d):
            return d[addr - a: addr - a + n]
    return None


def monitor(impl, cfg, cname, hist, pre, ev, post, mon, vb: VB, bnds) -> Tuple:
    """mon = (handler depth, steps the request has been deliverable without being taken, off flag)."""
    depth, waiting, acks, stale = mon
    acks = tuple(acks) if isinstance(acks, tuple) else ()
    wit = lambda: {"impl": impl, "config": cname, "history": [list(e) for e in hist]}  # noqa: E731
    sig = lambda kind: f"C12/{impl}/{kind}/{cname.split('|')[0].replace('@', '-')}"  # noqa: E731
    if post.get("err"):
        vb.add(sig("step-error"), f"{impl} {cname}: {ev} failed: {post['err']} after {hist[:-1]}", wit)
        return mon
    imr_pre, isr_pre = pre["imem"][0xFB], pre["imem"][0xFC]
    imr_post, isr_post = post["imem"][0xFB], post["imem"][0xFC]
    delivered = post["irq_total"] - pre["irq_total"] if impl == "python" else post["delivered_total"] - pre["delivered_total"]
    s_pre, s_post = pre["regs"]["S"], post["regs"]["S"]
    pc_pre, pc_post = pre["regs"]["PC"], post["regs"]["PC"]
    op_pre = code_at(cfg, pc_pre)
    off_mode = pre["power"] != "running" and code_at(cfg, (pc_pre - 1) & 0xFFFFF) == 0xDF
    # ---------------- delivery --------------------------------------------------------------------
    if delivered > 0:
        if ev[0] != "step":
            vb.add(sig("delivered-outside-step"), f"{impl} {cname}: interrupt delivered by {ev}", wit)
        # the delivery may come before the instruction at pre.PC (Python) or after it (Rust); when that
        # instruction is RETI both S bases are legitimate and the observed S decides which happened
        reti_first = (ev[0] == "step" and op_pre == 0x01 and pre["power"] == "running"
                      and s_post == ((s_pre + 5 - 5) & 0xFFFFF) and impl == "rust")
        if ev[0] == "step" and op_pre == 0x01 and pre["power"] == "running" and s_post == s_pre:
            reti_first = True
        base_s = s_pre + 5 if reti_first else s_pre
        frame = stack_bytes(post, (base_s - 5) & 0xFFFFF, 5)
        if s_post != ((base_s - 5) & 0xFFFFF) or frame is None:
            vb.add(sig("frame/not-5-bytes"), f"{impl} {cname}: delivery moved S {s_pre:#x} -> {s_post:#x} (expected {base_s - 5:#x}) "
                   f"after {hist}", wit)
        else:
            f_imr, f_f = frame[0], frame[1]
            f_pc = frame[2] | (frame[3] << 8) | (frame[4] << 16)
            if not (f_imr & 0x80) and depth > 0:
                vb.add(sig("handler-re-entered-with-master-enable-clear"), f"{impl} {cname}: a second interrupt was taken inside a handler "
                       f"(depth {depth}) although the master enable is clear (IMR={f_imr:#04x}, ISR={isr_post:#04x}) after {hist}", wit)
            elif not (f_imr & 0x80):
                vb.add(sig("taken-with-master-enable-clear"), f"{impl} {cname}: interrupt taken with IMR={f_imr:#04x} (IRM clear), "
                       f"ISR={isr_post:#04x} after {hist}", wit)
            if not (f_imr & isr_post & 0x0F) and not (f_imr & isr_pre & 0x0F):
                vb.add(sig("taken-while-source-masked-or-not-pending"), f"{impl} {cname}: interrupt taken with IMR={f_imr:#04x} "
                       f"ISR={isr_post:#04x}: no source is both unmasked and pending, after {hist}", wit)
            if imr_post != (f_imr & 0x7F) and not (depth >= 0 and op_pre == 0xCC):
                vb.add(sig("master-enable-not-cleared"), f"{impl} {cname}: after delivery IMR={imr_post:#04x}, pushed {f_imr:#04x}", wit)
            # delivery itself does not change the flags, so the pushed byte equals F at handler entry (the Rust machine delivers
            # after the instruction of this step, the Python machine before it: comparing with F before the step would be wrong)
            if (f_f & 3) != (post["regs"]["F"] & 3):
                vb.add(sig("frame/flags"), f"{impl} {cname}: pushed F={f_f:#04x}, flags at handler entry are {post['regs']['F']:#04x} "
                       f"(before the step {pre['regs']['F']:#04x})", wit)
            if f_pc not in bnds:
                vb.add(sig("frame/resume-pc"), f"{impl} {cname}: pushed resume PC {f_pc:#x} is not an instruction boundary of the "
                       f"running program, after {hist}", wit)
            if pc_post not in (VECTOR, VECTOR + 1):
                vb.add(sig("not-at-vector"), f"{impl} {cname}: after delivery PC={pc_post:#x}, vector is {VECTOR:#x}", wit)
        served = (frame[0] & isr_post & 0x0F) if (frame is not None and len(frame) == 5) else 0x0F
        acks = acks + (served or 0x0F,)
        stale |= served          # served once; a handler that returns without acknowledging leaves a stale status bit
        depth += 1
        waiting = 0
    # ---------------- software interrupt: a call that returns; it serves no hardware source ----------------------
    elif ev[0] == "step" and op_pre == 0xFE and pre["power"] == "running":
        frame = stack_bytes(post, (s_pre - 5) & 0xFFFFF, 5)
        if s_post != ((s_pre - 5) & 0xFFFFF) or frame is None:
            vb.add(sig("ir-frame/not-5-bytes"), f"{impl} {cname}: IR moved S {s_pre:#x} -> {s_post:#x} after {hist}", wit)
        else:
            f_pc = frame[2] | (frame[3] << 8) | (frame[4] << 16)
            if frame[0] != imr_pre or (frame[1] & 3) != (pre["regs"]["F"] & 3) or f_pc != ((pc_pre + 1) & 0xFFFFF):
                vb.add(sig("ir-frame/contents"), f"{impl} {cname}: IR at {pc_pre:#x} with IMR={imr_pre:#04x} F={pre['regs']['F']:#04x} pushed "
                       f"IMR={frame[0]:#04x} F={frame[1]:#04x} PC={f_pc:#x} after {hist}", wit)
            if imr_post != (imr_pre & 0x7F):
                vb.add(sig("ir-frame/master-enable-not-cleared"), f"{impl} {cname}: after IR IMR={imr_post:#04x} (was {imr_pre:#04x})", wit)
        acks = acks + (0,)
        depth += 1
    # ---------------- RETI --------------------------------------------------------------------------
    elif ev[0] == "step" and op_pre == 0x01 and pre["power"] == "running":
        frame = stack_bytes(pre, s_pre, 5)
        if frame is not None and depth > 0:
            f_imr, f_f = frame[0], frame[1]
            f_pc = (frame[2] | (frame[3] << 8) | (frame[4] << 16)) & 0xFFFFF
            if pc_post != f_pc or s_post != ((s_pre + 5) & 0xFFFFF) or imr_post != f_imr or (post["regs"]["F"] & 3) != (f_f & 3):
                vb.add(sig("reti-does-not-restore"), f"{impl} {cname}: RETI with frame IMR={f_imr:#04x} F={f_f:#04x} PC={f_pc:#x} gave "
                       f"PC={pc_post:#x} S={s_post:#x} IMR={imr_post:#04x} F={post['regs']['F']:#04x} after {hist}", wit)
        allowed = acks[-1] if acks else 0x0F
        acks = acks[:-1]
        lost_at_reti = isr_pre & ~isr_post & 0x0F & ~allowed
        if lost_at_reti:
            vb.add(sig("return-clears-unserved-request"), f"{impl} {cname}: RETI cleared ISR bits {lost_at_reti:#04x} that the returning "
                   f"handler was not entered for (ISR {isr_pre:#04x}->{isr_post:#04x}) after {hist}", wit)
        cleared = isr_pre & ~isr_post & 0x0F
        if not lost_at_reti and bin(cleared).count("1") > 1:
            # one delivery serves one source: when several were pending and enabled at entry, the return may acknowledge one of them,
            # the others are still owed their own delivery
            vb.add(sig("return-clears-several-requests"), f"{impl} {cname}: RETI cleared ISR bits {cleared:#04x} (ISR {isr_pre:#04x}->{isr_post:#04x}); "
                   f"one handler entry serves one source, the other pending request is lost, after {hist}", wit)
        depth = max(0, depth - 1)
    # ---------------- interrupted program unaffected: registers only change by the executed instruction ---------
    if ev[0] != "step":
        for n in ("PC", "S", "BA", "I", "X", "Y", "U"):
            if pre["regs"][n] != post["regs"][n]:
                vb.add(sig("event-changes-cpu-registers"), f"{impl} {cname}: {ev} changed {n} {pre['regs'][n]:#x}->{post['regs'][n]:#x}", wit)
    # ---------------- pending requests are not lost -------------------------------------------------------------
    writes_isr = cname.split("|")[0].partition("@")[0] in ("isr_clear", "clr_halt", "isr_hi_halt") or "clr" in cname.split("|")[1]
    if pre["power"] == "running" and not off_mode:
        lost = isr_pre & ~isr_post & 0x0F
        if ev[0] == "release_on":
            lost &= ~0x08
        if ev[0] == "step" and op_pre == 0x01:
            lost = 0            # the return may acknowledge the source it served
        if writes_isr and ev[0] == "step" and op_pre == 0xCC:
            lost = 0
        if lost and delivered == 0:
            vb.add(sig("pending-request-lost"), f"{impl} {cname}: ISR {isr_pre:#04x}->{isr_post:#04x} by {ev} without delivery "
                   f"(IMR={imr_pre:#04x}) after {hist}", wit)
    # ---------------- a timer expiry is a request: it must become pending ---------------------------------------------
    if ev[0] == "step" and delivered == 0 and depth == 0 and pre["power"] == "running" and post["power"] == "running" and cfg["timer"][0] \
            and not pre.get("in_interrupt") and not post.get("in_interrupt") and op_pre not in (0x01, 0xFF) and not (writes_isr and op_pre == 0xCC):
        for tname, per, key, bit in (("mti", cfg["timer"][1], "next_mti", 0x01), ("sti", cfg["timer"][2], "next_sti", 0x02)):
            if per > 0 and key in pre and key in post and post[key] != pre[key] and not (isr_post & bit):
                vb.add(sig(f"timer-expiry-leaves-no-request/{tname}"), f"{impl} {cname}: the {tname} target moved {pre[key]}->{post[key]} "
                       f"(counter {pre['cycles']}->{post['cycles']}) but ISR={isr_post:#04x} has no {tname} request, after {hist}", wit)
    # ---------------- promptness -----------------------------------------------------------------------------------
    if ev[0] == "step":
        deliverable = (imr_pre & 0x80) and (imr_pre & isr_pre & 0x0F & ~stale) and depth == 0 and pre["power"] == "running"
        if delivered == 0 and deliverable and (imr_post & 0x80) and (imr_post & isr_post & 0x0F & ~stale):
            waiting += 1
            if waiting > WAIT_BOUND:
                vb.add(sig("unmasked-pending-request-not-taken"), f"{impl} {cname}: IMR={imr_pre:#04x} ISR={isr_pre:#04x} enabled and "
                       f"pending for {waiting} instruction boundaries without delivery, after {hist}", wit)
        elif delivered == 0:
            waiting = 0 if not deliverable else waiting
    # ---------------- HALT / OFF --------------------------------------------------------------------------------------
    if pre["power"] != "running" and ev[0] == "step":
        if post["power"] != "running":
            for n in ("PC", "S", "BA", "I", "X", "Y", "U"):
                if pre["regs"][n] != post["regs"][n]:
                    vb.add(sig("halted-cpu-executes"), f"{impl} {cname}: halted step changed {n}", wit)
            if isr_pre & 0x7F and not off_mode:
                vb.add(sig("halt-not-woken-by-pending-status"), f"{impl} {cname}: halted with ISR={isr_pre:#04x} and still halted after a "
                       f"step, after {hist}", wit)
        else:
            if not (isr_post & 0x7F) and not (isr_pre & 0x7F):
                vb.add(sig("halt-wakes-without-status"), f"{impl} {cname}: CPU left HALT/OFF with ISR={isr_post:#04x}, after {hist}", wit)
        if off_mode and (isr_post & ~isr_pre & 0x03) and not (isr_pre & 0x0C):
            vb.add(sig("timers-run-while-off"), f"{impl} {cname}: powered off, yet a timer status bit was set "
                   f"(ISR {isr_pre:#04x}->{isr_post:#04x}) after {hist}", wit)
        # "a powered-off CPU additionally stops both timers": while it stays off the countdown to each target is frozen
        if off_mode and post["power"] != "running" and not (isr_pre & 0x0C) and pre.get("timer_enabled", True):
            en, mti_p, sti_p = cfg["timer"]
            for tname, per, key in (("mti", mti_p, "next_mti"), ("sti", sti_p, "next_sti")):
                if en and per > 0 and key in pre and key in post and pre[key] > pre["cycles"]:
                    if (post[key] - post["cycles"]) != (pre[key] - pre["cycles"]):
                        vb.add(sig("off-countdown-advances"), f"{impl} {cname}: powered off, yet the {tname} countdown went from "
                               f"{pre[key] - pre['cycles']} to {post[key] - post['cycles']} cycles (counter {pre['cycles']}->{post['cycles']}, "
                               f"target {pre[key]}->{post[key]}) after {hist}", wit)
                        break
    stale &= isr_post            # a bit that went back to 0 is fresh the next time it is raised
    return (depth, min(waiting, 4), acks[-3:], stale & 0x0F)


def prep(impl, obs_list):
    """Normalise observations: cumulative delivery counter for the Rust side."""
    if impl == "rust":
        for o in obs_list:
            o["delivered_total"] = o["irq_total"]
    return obs_list


def explore(impl, h, cfg, cname, depth, max_dev, vb: VB, roots_len: int = 5):
    bnds = boundaries(cfg)
    runner = (lambda hist: M.run_py(cfg, hist)) if impl == "python" else None
    # node: (history, obs list along the path (last only needed), monitor state, deviations)
    init_obs = (M.run_py(cfg, [], obs_each=False) if impl == "python" else M.run_rs(h, cfg, [], obs_each=False))[-1]
    prep(impl, [init_obs])
    seen = {canon(init_obs, (0, 0, (), 0))}
    frontier = [((), init_obs, (0, 0, (), 0), 0)]
    # additional roots: states along two default schedules (one early ON-key press / one injected key event followed
    # by plain steps), so that "handler has returned" states are explored to the same depth as the initial state
    for first in (("press_on",), ("inject", "KEY_Q", 0)):
        path = (first,) + (("step",),) * roots_len
        seq = M.run_py(cfg, path) if impl == "python" else M.run_rs(h, cfg, path)
        prep(impl, seq)
        mon = (0, 0, (), 0)
        pre = init_obs
        for i, post in enumerate(seq):
            if "regs" not in post:
                break
            mon = monitor(impl, cfg, cname, path[: i + 1], pre, path[i], post, mon, vb, bnds)
            pre = post
            if i >= 3:
                k = canon(post, mon)
                if k not in seen:
                    seen.add(k)
                    frontier.append((path[: i + 1], post, mon, 0))
    trans = 0
    maxd = 0
    sample = ()
    for d in range(depth):
        cand = []
        for hist, obs, mon, dev in frontier:
            for ev in EVENTS:
                nd = dev + (0 if ev[0] == "step" else 1)
                if nd > max_dev:
                    continue
                cand.append((hist + (ev,), obs, mon, nd))
        if not cand:
            break
        if impl == "rust":
            posts = []
            for i in range(0, len(cand), 200):
                part = cand[i:i + 200]
                resps = h.batch([M.rs_req(cfg, c[0], obs_each=False) for c in part])
                posts.extend(M.rs_unpack(r)[-1] if "out" in r else {"err": str(r)} for r in resps)
        else:
            posts = [M.run_py(cfg, c[0], obs_each=False)[-1] for c in cand]
        nxt = []
        for (hist, pre, mon, nd), post in zip(cand, posts):
            trans += 1
            if "regs" not in post:
                vb.add(f"C12/{impl}/harness-error", f"{post}", {"impl": impl, "config": cname, "history": [list(e) for e in hist]})
                continue
            prep(impl, [post])
            # errors raised by the step itself are reported by the harness per op only with obs_each; re-run on error suspicion
            mon2 = monitor(impl, cfg, cname, hist, pre, hist[-1], post, mon, vb, bnds)
            k = canon(post, mon2)
            if k not in seen:
                seen.add(k)
                nxt.append((hist, post, mon2, nd))
                sample = hist
        frontier = nxt
        maxd = d + 1
        if not frontier:
            break
    return len(seen), trans, maxd, sample


import os as _os
WAIT_BOUND = int(_os.environ.get("VERIF_C12_WAIT", "2"))     # boundaries a deliverable request may stay untaken
LONG_TIMERS = [(True, 5, 7), (True, 7, 3), (True, 11, 4), (True, 9, 0)]
LONG_PROGS = ["nop", "imr_mti", "imr_mti@kbstale", "imr_mti@kboff", "imr_toggle", "imr_word", "isr_clear", "wait", "halt", "zflag", "clr_halt"]


def long_combos(impl, thorough):
    progs = LONG_PROGS if impl == "rust" else [p for p in LONG_PROGS if "@" not in p]
    out = [(p, hn, i, t) for p in progs for hn in ("reti", "clr") for i in ((0x82, 0x83) if p.startswith("imr_mti") else (0x8F, 0x81, 0x82))
           for t in (LONG_TIMERS if thorough or impl == "rust" else LONG_TIMERS[:2])]
    # one expiry of each timer inside the run and none after it: the main timer fires (every phase of the mask-toggling loop,
    # so also while masked), the sub timer is served a few instructions later, and nothing re-raises the first request
    out += [(p, "reti", 0x82, (True, 29 + k, 29 + k + d)) for p in progs if p.startswith("imr_mti") for k in range(6) for d in (1, 2, 6)]
    out += [(p + v, "reti", 0x82, (True, 25 + k, 25 + k + d)) for p in ("imr_unmask",) for v in (("", "@kbstale", "@kboff") if impl == "rust" else ("",))
            for k in range(3) for d in (1, 2, 4)]
    return out


def _long_shard(args):
    """Step-only runs much longer than the BFS depth, with timer periods longer than a handler: a request that became pending
    while masked has to wait for the program to unmask it (no new expiry comes to its rescue), several handlers complete, ..."""
    impl, combos, nsteps = args
    h = rb.harness() if impl == "rust" else None
    vb = VB()
    tr = 0
    for (p, hn, imr, timer) in combos:
        cname = f"{p}|{hn}|imr={imr:02x}|t={int(timer[0])},{timer[1]},{timer[2]}"
        cfg = make_cfg(p, hn, imr, timer)
        bnds = boundaries(cfg)
        path = (("step",),) * nsteps
        pre = (M.run_py(cfg, [], obs_each=False) if impl == "python" else M.run_rs(h, cfg, [], obs_each=False))[-1]
        seq = M.run_py(cfg, path) if impl == "python" else M.run_rs(h, cfg, path)
        prep(impl, [pre] + seq)
        mon = (0, 0, (), 0)
        for i, post in enumerate(seq):
            if "regs" not in post:
                break
            mon = monitor(impl, cfg, cname, path[: i + 1], pre, path[i], post, mon, vb, bnds)
            pre = post
            tr += 1
    return {"states": 0, "transitions": tr, "depth": nsteps, "vb": vb, "samples": []}


def make_cfg(p, hname, imr, timer, kol=0xFF):
    p, _, var = p.partition("@")
    cfg = M.default_cfg(bytes.fromhex(PROGRAMS[p]), bytes.fromhex(HANDLERS[hname]), imr=imr, timer=timer, kb_press=1, kol=kol)
    if var.startswith("s"):
        # the stack pointer starts 1-4 bytes above the bottom of the internal RAM (or of one of its 32 KiB images), so the
        # five frame bytes straddle that edge: whatever the bus does there, push and pop must do it byte by byte alike
        s0 = int(var[1:], 16)
        cfg["regs"]["S"] = s0
        cfg["obs_mem"] = [(s0 - 40, 48)] + list(M.OBS_MEM[1:])
    if var in ("kboff", "kbstale"):
        cfg["kb_irq"] = False                  # host switch: the keyboard raises no interrupts
        if var == "kbstale":
            cfg["imem"][0xFC] = 0x04           # ... while a key status bit is still standing in ISR (its mask bit stays clear)
    if p == "wait_scaled":
        cfg["timer_scale"] = 0.25
    if p == "xram":
        cfg["expand_ram"] = (0x8000, 0x50000)       # PCE500Emulator.expand_ram: a data-backed RAM overlay 0x50000-0x57FFF
    return cfg


def _shard(args):
    impl, combos, depth, max_dev = args
    h = rb.harness() if impl == "rust" else None
    vb = VB()
    st = tr = 0
    md = 0
    samples = []
    for (p, hn, imr, timer) in combos:
        cname = f"{p}|{hn}|imr={imr:02x}|t={int(timer[0])},{timer[1]},{timer[2]}"
        cfg = make_cfg(p, hn, imr, timer)
        s, t, d, smp = explore(impl, h, cfg, cname, depth, max_dev, vb)
        st += s
        tr += t
        md = max(md, d)
        if len(samples) < 2 and smp:
            samples.append({"impl": impl, "config": cname, "history": [list(e) for e in smp]})
    return {"states": st, "transitions": tr, "depth": md, "vb": vb, "samples": samples}


def combos_for(impl, thorough, seed):
    progs = [p for p in PROGRAMS if p not in ("xram", "rst", "romw", "wait_scaled", "imr_mti", "imr_unmask", "fhi")]      # xram only adds a RAM expansion overlay for C16
    hands = list(HANDLERS)
    if impl == "rust":
        imrs = IMRS if thorough else [0x00, 0x81, 0x84, 0x88, 0x8F, 0x0F]
        timers = TIMERS if thorough else [TIMERS[0], TIMERS[2], TIMERS[3], TIMERS[6], TIMERS[7]]
    else:
        imrs = [0x00, 0x8F, 0x0F] if not thorough else [0x00, 0x80, 0x81, 0x84, 0x88, 0x8F, 0x0F]
        timers = [TIMERS[0], TIMERS[2]] if not thorough else [TIMERS[0], TIMERS[2], TIMERS[3], TIMERS[6], TIMERS[7]]
        if not thorough:
            hands = ["reti", "clr"] + (["nest"] if seed % 2 else ["long"])[:0]
    out = [(p, hn, i, t) for p in progs for hn in hands for i in imrs for t in timers]
    if impl == "python" and not thorough:
        # two timers with only one of them unmasked: the enabled request must be taken whichever source fired last
        out += [(p, "reti", i, TIMERS[7]) for p in ("nop", "zflag") for i in (0x81, 0x82)]
        out += [("nop", "bp", 0x8F, TIMERS[2]), ("zflag", "bp", 0x81, TIMERS[2])]      # the handler leaves BP non-zero at RETI time
    # stack frames that straddle the lower edge of the internal RAM / of one of its images
    seams = ["nop@sb8002", "nop@sb8004"] + (["nop@sb8001", "nop@sb8003", "nop@s90002", "zflag@sb8002"] if thorough or impl == "rust" else [])
    out += [(p, hn, i, t) for p in seams for hn in ("reti", "clr") for i in (0x8F, 0x81) for t in (TIMERS[2],)]
    if impl == "rust":
        # keyboard interrupts switched off by the host with a stale key status bit: the timer requests must still be served
        out += [(p, hn, i, t) for p in ("imr_mti@kbstale", "imr_mti@kboff", "imr_mti") for hn in ("reti", "clr") for i in (0x82, 0x83)
                for t in (TIMERS[7], TIMERS[2])]
    if seed:
        k = seed % len(out)
        out = out[k:] + out[:k]
    return out


def run(ctx) -> None:
    rb.build()
    n = nproc()
    rs_depth, rs_dev = (10, 3) if ctx.thorough else (6, 2)
    py_depth, py_dev = (7, 2) if ctx.thorough else (5, 2)
    jobs = [("rust", c, rs_depth, rs_dev) for c in chunks(combos_for("rust", ctx.thorough, ctx.seed), n * 2)]
    jobs += [("python", c, py_depth, py_dev) for c in chunks(combos_for("python", ctx.thorough, ctx.seed), n * 4)]
    res = pmap(_shard, jobs)
    nlong = 80 if ctx.thorough else 52
    resL = pmap(_long_shard, [(impl, c, nlong) for impl in ("rust", "python") for c in chunks(long_combos(impl, ctx.thorough), n // 2)])
    ctx.coverage["long_runs"] = {"configs": sum(len(long_combos(i, ctx.thorough)) for i in ("rust", "python")), "steps_each": nlong,
                                 "monitored_transitions": sum(r["transitions"] for r in resL)}
    res = res + resL
    for r in res:
        ctx.merge_bucket(r["vb"])
    ctx.level = "model_checking"
    ctx.coverage.update({
        "states": sum(r["states"] for r in res),
        "transitions": sum(r["transitions"] for r in res),
        "traces_validated_against_impl": sum(r["transitions"] for r in res),
        "configs_rust": len(combos_for("rust", ctx.thorough, ctx.seed)),
        "configs_python": len(combos_for("python", ctx.thorough, ctx.seed)),
        "depth_rust": rs_depth, "deviations_rust": rs_dev, "depth_python": py_depth, "deviations_python": py_dev,
        "exhaustive": True,
        "rule": ("per configuration (7 firmware loops x 3-4 handlers x initial IMR x timer periods, synthetic ROM with vectors, "
                 "keyboard column strobed) BFS over {step, ON press/release, key press/release, injected key event} with at most "
                 "the stated number of non-step events, to the stated depth, dedup on (registers, internal memory, stack bytes, "
                 "power state, distances to timer targets, controller flags, FIFO, monitor state); each transition replayed on the "
                 "real machine and judged by the monitors: gated delivery, 5-byte frame, master enable cleared, vector, RETI inverse, "
                 "no lost request, prompt delivery once unmasked, HALT freeze/wake, OFF stops timers"),
        "samples": [s for r in res for s in r["samples"]][:4],
    })
    ctx.assumptions += ["handlers begin with NOP and the main loops leave S and F alone, so a delivery is recognisable from the "
                        "state before/after one step on both models (Python delivers before, Rust after the instruction)",
                        "delivery witness: irq_counts['total'] (Python) / TimerContext.irq_total (Rust)"]


def replay(ctx, w) -> Optional[str]:
    rb.build()
    p, hn, imr_s, t_s = w["config"].split("|")
    imr = int(imr_s.split("=")[1], 16)
    tt = [int(x) for x in t_s.split("=")[1].split(",")]
    cfg = make_cfg(p, hn, imr, (bool(tt[0]), tt[1], tt[2]))
    hist = tuple(tuple(e) for e in w["history"])
    impl = w["impl"]
    h = rb.harness() if impl == "rust" else None
    vb = VB()
    bnds = boundaries(cfg)
    obs0 = (M.run_py(cfg, [], obs_each=False) if impl == "python" else M.run_rs(h, cfg, [], obs_each=False))[-1]
    seq = M.run_py(cfg, hist) if impl == "python" else M.run_rs(h, cfg, hist)
    prep(impl, [obs0] + seq)
    mon = (0, 0, (), 0)
    pre = obs0
    for i, post in enumerate(seq):
        mon = monitor(impl, cfg, w["config"], hist[: i + 1], pre, hist[i], post, mon, vb, bnds)
        pre = post
    for sig, (cnt, wl) in vb.d.items():
        return wl[0][0]
    return None
