"""C03 — disassembly operands name exactly the locations the lifted IL touches.

Exhaustive enumeration: every structural shape (prefix x opcode x selector byte) x a state palette in which every
addressing mode yields a different address (BP/PX/PY triples incl. 8-bit wrap, distinct pointer registers, I in 1..3).
The *rendered token stream* is parsed (spec/operands.py) and interpreted by the documented addressing rules and
instruction tables (spec/isa.py); the Python core runs the lifted IL over a recording memory.
Oracle: data reads within (denoted data + address-formation bytes + destination bytes) and covering the denoted
sources; written addresses exactly the denoted destination bytes.
"""
from __future__ import annotations

from typing import Any, Dict, List, Optional, Tuple

from ..core import VB, nproc
from ..par import pmap, chunks
from .. import drv, shapes
from .. import isacheck as I
from ..spec.operands import pre_table_diffs

IMEM = 0x100000
BPX = [(0x10, 0x23, 0x45), (0xF0, 0x20, 0x31), (0x00, 0x00, 0x00)]
REGS = [
    {"BA": 0x1234, "I": 2, "X": 0x20100, "Y": 0x20200, "U": 0x30000, "S": 0x40000, "F": 1},
    {"BA": 0xFF80, "I": 3, "X": 0x27FF0, "Y": 0x21000, "U": 0x38100, "S": 0x49000, "F": 2},
    {"BA": 0x00FF, "I": 1, "X": 0x20010, "Y": 0x2FF00, "U": 0x30400, "S": 0x40800, "F": 0},
]
BCD_MN = ("DADL", "DSBL")


def states(thorough: bool, seed: int) -> List[Tuple[Tuple[int, int, int], Dict[str, int], int]]:
    st = [(BPX[0], REGS[0], 1), (BPX[1], REGS[1], 2), (BPX[2], REGS[2], 3)]      # data never depends on the seed: every quick run explores a subset of thorough
    return st if thorough else st[:2] + ([st[2]] if seed % 2 else [])


def make_case(d: bytes, state, mn_hint: str) -> I.Case:
    bpx, regs, k = state
    mem = {IMEM + 0xEC: bpx[0], IMEM + 0xED: bpx[1], IMEM + 0xEE: bpx[2]}
    fill = (0x200 if mn_hint in BCD_MN else 0x100) | k
    return I.Case(d, dict(regs), mem, fill)


def sig_tag(o: I.Outcome, d: bytes) -> str:
    pre = "pre" if getattr(o.ins, "_pre", None) is not None else "none"
    return f"{o.mn}/op={o.ins.opcode:02X}/{pre}"


def _shard(args):
    pairs, tail, sts = args
    vb = VB()
    n = judged = skipped = 0
    for pre, op in pairs:
        for shape_no, d in enumerate(shapes.shapes_for(pre, op, tail)):
            ins, _ = drv.py_decode(d, I.CODE)
            d = d[: ins.length()]
            mn = ins.name()
            for st_no, st in enumerate(sts):
                c = make_case(d, st, mn)
                o = I.run_case(c)
                n += 1
                if st_no == 0 and getattr(o, "ops", None) is not None:
                    # the modes shown for `(m),(n)` under a prefix byte are those of the documented prefix table
                    for kind, what in pre_table_diffs(getattr(ins, "_pre", None), o.ops):
                        vb.add(f"C03/{kind}/{mn}/op={ins.opcode:02X}/pre={ins._pre:02X}", f"{d.hex()} '{o.text}': {what}", c.witness)
                if o.skip:
                    skipped += 1
                    continue
                judged += 1
                for kind, what in I.access_diffs(o, c):
                    vb.add(f"C03/{kind}/{sig_tag(o, d)}",
                           f"{d.hex()} '{o.text}' BP/PX/PY={st[0]} I={st[1]['I']}: {what}", c.witness)
            # counted transfers with more than 256 elements: the external side, the count and the pointers stay documented
            if mn in ("MVL", "MVLD"):
                # one shape in eight (unprefixed) also with a count far beyond any step budget an evaluator might have
                for big in LARGE_I + ((HUGE_I,) if pre is None and shape_no % 8 == 0 else ()):
                    c, o = large_case(d, sts[0], mn, big)
                    n += 1
                    if o.skip:
                        skipped += 1
                        continue
                    judged += 1
                    acc, _val = I.large_count_diffs(o, c)
                    for kind, what in acc:
                        w = c.witness()
                        w["large_count"] = True
                        vb.add(f"C03/{kind}/{sig_tag(o, d)}", f"{d.hex()} '{o.text}' BP/PX/PY={sts[0][0]}: {what}", w)
    return {"n": n, "judged": judged, "skipped": skipped, "vb": vb}


LARGE_I = (0x100, 0x101, 0x203)
HUGE_I = 0x3000


def large_case(d: bytes, state, mn: str, big: int):
    c = make_case(d, state, mn)
    c.regs["I"] = big
    return c, I.run_case(c, large_count=True)


def run(ctx) -> None:
    pres = list(drv.PRE_CHOICES) if ctx.thorough else [None, 0x32, 0x25, 0x37, 0x21, drv.PRE_BYTES[ctx.seed % 15]]
    pairs = [(p, op) for p in dict.fromkeys(pres) for op in range(256) if not (p is None and op in drv.PRE_BYTES)]
    tail = bytes.fromhex("3404050607")
    sts = states(ctx.thorough, ctx.seed)
    res = pmap(_shard, [(s, tail, sts) for s in chunks(pairs, nproc() * 4)])
    for r in res:
        ctx.merge_bucket(r["vb"])
    ctx.level = "exploration"
    ctx.coverage.update({
        "evaluations": sum(r["n"] for r in res),
        "distinct_nontrivial": sum(r["judged"] for r in res),
        "skipped_undocumented": sum(r["skipped"] for r in res),
        "exhaustive": True,
        "rule": (f"every structural shape for prefix set {sorted(str(p) for p in dict.fromkeys(pres))} x {len(sts)} states "
                 "((BP,PX,PY) in {(10,23,45),(F0,20,31),(0,0,0)}, distinct pointer registers, I in 1..3, hash-filled memory); the "
                 "rendered tokens are parsed and interpreted by the documented addressing rules; the Python core executes the lifted "
                 "IL over a recording memory; judged = cases whose documented meaning is defined (others are counted as skipped, e.g. "
                 "multi-byte internal accesses crossing 0xFF or invalid BCD); MVL/MVLD additionally with I in {0x100, 0x101, 0x203}, where the "
                 "external side of the transfer is judged. distinct_nontrivial = judged (encoding,state) cases."),
        "samples": [{"bytes": "30c81020", "text": "MV (10), (BP+20)", "state": {"BP": 0x10, "PX": 0x23, "PY": 0x45}}],
    })
    ctx.assumptions += ["fetch reads are separated from data reads by address (code lives at 0x1000..0x1020, no operand points there)",
                        "a redundant read of the destination bytes is accepted",
                        "the prefix byte table of the README settles the modes of instructions written (m),(n) only; other operand shapes are judged text against IL"]


def replay(ctx, w) -> Optional[str]:
    c = I.Case.from_witness(w)
    if w.get("large_count"):
        o = I.run_case(c, large_count=True)
        if o.skip:
            return None
        acc, _ = I.large_count_diffs(o, c)
        return f"'{o.text}': {acc[0][1]}" if acc else None
    o = I.run_case(c)
    if getattr(o, "ops", None) is not None and o.ins is not None:
        t = pre_table_diffs(getattr(o.ins, "_pre", None), o.ops)
        if t:
            return f"'{o.text}': {t[0][1]}"
    if o.skip:
        return None
    d = I.access_diffs(o, c)
    return f"'{o.text}': {d[0][1]}" if d else None
