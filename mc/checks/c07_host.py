"""C07, part P: a host-backed memory window (python_ranges + host_read) under CoreRuntime::step.

The host port answers the k-th read with seq[k mod len] - a data port / status register whose value changes on its own,
without any CPU write.  What a run of N instructions leaves behind must not depend on how the run was cut into
step() calls (or async slices): step(N) == every step(a)+step(N-a) == every three-way cut == N x step(1).

Enumeration: port programs x answer sequences x timer settings x N in 1..Nmax x all cuts of N into <=3 step() calls,
plus async runs with four slice sizes.  Oracle: the N x step(1) machine (registers, internal memory, probe memory,
counters, timer and interrupt bookkeeping).
"""
from __future__ import annotations

import itertools
from typing import Any, Dict, List, Optional

from .. import machine as M
from .. import rustbridge as rb
from ..core import VB, nproc
from ..par import pmap, chunks
from . import c12
from .c18_cpu import diff

PORT = 0xB9000
_P = PORT.to_bytes(3, "little").hex()
_P1 = (PORT + 1).to_bytes(3, "little").hex()


def _out(i: int) -> str:
    return (0xB8100 + i).to_bytes(3, "little").hex()


# each program ends in a backward JR to its first byte
def _loop(body: str) -> str:
    n = len(body) // 2 + 2
    return body + f"13{n:02x}"


PROGRAMS = {
    # MV A,[port]; MV [out_i],A  three times
    "copy3": _loop("".join(f"88{_P}a8{_out(i)}" for i in range(3))),
    # two ports in the window, alternating
    "copy2ports": _loop(f"88{_P}a8{_out(0)}88{_P1}a8{_out(1)}88{_P}a8{_out(2)}"),
    # 16-bit read of the port (two host reads in one instruction), stored as a word
    "word": _loop(f"8a{_P}aa{_out(0)}8a{_P}aa{_out(2)}"),
    # poll until the port answers 0x22, then count
    "poll": _loop(f"88{_P}6022" + "1a02" + "6c01" + f"a8{_out(4)}"),   # MV A,[p]; CMP A,22; JRNZ +2; INC IL; MV [out4],A
    # port reads with two internal-memory loads (MV A,(BP+00); MV IL,(BP+0B)) between them
    "sum": _loop(f"88{_P}a8{_out(0)}80{(0xB8100).to_bytes(3, 'little').hex()}" + f"88{_P}a8{_out(1)}"),
    # the port read through a register pointer: MV A,[X] with X = port
    "viaX": _loop(f"9004a8{_out(0)}9004a8{_out(1)}"),
}
SEQS = [[0x11, 0x22], [0x11, 0x22, 0x33, 0x44, 0x55], [0x22, 0x22, 0x00], [0xFF, 0x00]]
TIMERS = [(False, 0, 0), (True, 2, 3)]
SLICES = [1, 2, 3, 64]


def make_cfg(p: str, seq, timer):
    cfg = M.default_cfg(bytes.fromhex(PROGRAMS[p]), bytes.fromhex(c12.HANDLERS["reti"]), imr=0x83, timer=timer, kb_press=1)
    cfg["host_port"] = {"range": [PORT, PORT + 1], "seq": list(seq)}
    if p == "viaX":
        cfg["regs"]["X"] = PORT
    return cfg


def variants(nmax: int, thorough: bool):
    out = []
    for n in range(1, nmax + 1):
        out.append((n, f"step({n})", [("step", n)]))
        for a in range(1, n):
            out.append((n, f"step({a})+step({n - a})", [("step", a), ("step", n - a)]))
        for a, b in itertools.combinations(range(1, n), 2):
            if thorough or n <= 6:
                out.append((n, f"step({a})+step({b - a})+step({n - b})", [("step", a), ("step", b - a), ("step", n - b)]))
        for s in SLICES:
            out.append((n, f"async({n},slice={s})", [("async", n, s)]))
    return out


def _shard(args):
    cs, nmax, thorough = args
    h = rb.harness()
    vb = VB()
    runs = 0
    outcomes = set()
    var = variants(nmax, thorough)
    for (p, si, timer) in cs:
        cfg = make_cfg(p, SEQS[si], timer)
        reqs = [M.rs_req(cfg, [("step", 1)] * n, obs_each=False) for n in range(0, nmax + 1)]
        reqs += [M.rs_req(cfg, ev, obs_each=False) for (_, _, ev) in var]
        resp = h.batch(reqs)
        ref = {n: M.rs_unpack(resp[n])[-1] for n in range(0, nmax + 1)}
        for k, (n, name, ev) in enumerate(var):
            got = M.rs_unpack(resp[nmax + 1 + k])[-1]
            runs += 1
            outcomes.add((p, si, str(got["mem"])[:80], got["regs"].get("BA")))
            d = diff(ref[n], got)
            if d:
                vb.add(f"C07/rust-runtime/host-port/{p}/{'+'.join(sorted(set(x.split('[')[0] for x in d)))[:60]}",
                       f"{p}|seq={SEQS[si]}|t={timer}: {name} differs from {n} x step(1) in {d[:6]} "
                       f"(BA {got['regs'].get('BA')} vs {ref[n]['regs'].get('BA')}, mem {str(got['mem'])[:60]} vs {str(ref[n]['mem'])[:60]})",
                       {"host": True, "cfg": [p, si, list(timer)], "n": n, "events": [list(e) for e in ev]})
    return {"vb": vb, "runs": runs, "outcomes": len(outcomes)}


def run(ctx) -> Dict[str, Any]:
    nmax = 14 if ctx.thorough else 9
    cs = list(itertools.product(PROGRAMS, range(len(SEQS)), TIMERS))
    res = pmap(_shard, [(c, nmax, ctx.thorough) for c in chunks(cs, nproc())])
    for r in res:
        ctx.merge_bucket(r["vb"])
    return {"configs": len(cs), "max_instructions": nmax, "cuts_per_config": len(variants(nmax, ctx.thorough)),
            "runs": sum(r["runs"] for r in res), "distinct_outcomes": sum(r["outcomes"] for r in res)}


def replay(w) -> Optional[str]:
    p, si, timer = w["cfg"]
    cfg = make_cfg(p, SEQS[si], tuple(timer))
    h = rb.harness()
    ref = M.run_rs(h, cfg, [("step", 1)] * w["n"], obs_each=False)[-1]
    got = M.run_rs(h, cfg, [tuple(e) for e in w["events"]], obs_each=False)[-1]
    d = diff(ref, got)
    return f"differs from {w['n']} single steps in {d[:6]}" if d else None
