"""C01 — decoding is total, deterministic and consistent across consumers.

Parts (each complete within its stated bound):
  A  structural x truncation: prefix choices x 256 opcodes x 256 second bytes x tails, every
     buffer length L = 0..7; all three arch callbacks and the emulator fetch path on the full buffer
  C  trailing instructions: first-instruction representatives x follower classes
  D  histories: ordered pairs of representatives (fingerprint of B after A == fresh; object A
     still renders/lifts the same after B was decoded)
  E  addresses: callbacks + emulator fetch at boundary addresses
"""
from __future__ import annotations

from typing import Any, Dict, List, Optional, Tuple

from .. import drv
from ..par import pmap, chunks, in_child
from ..core import nproc, VB

from sc62015.pysc62015.emulator import Emulator
from binja_test_mocks.eval_llil import Memory

ADDR = 0x1000
ADDRS = [0, 1, 0xFFFF, 0x10000, 0x7FFFF, 0xFFFF0] + list(range(0xFFFF9, 0x100000))


class FlatMem:
    def __init__(self) -> None:
        self.m: Dict[int, int] = {}

    def rd(self, a: int) -> int:
        return self.m.get(a, 0)

    def wr(self, a: int, v: int) -> None:
        self.m[a] = v & 0xFF


_FM = FlatMem()
_EMU = Emulator(Memory(_FM.rd, _FM.wr), reset_on_init=False)


def emu_fetch(data: bytes, addr: int):
    _FM.m = {addr + i: b for i, b in enumerate(data)}
    # bytes after the buffer read as 0xD0-like "needs more"? keep them 0 (NOP) – only used with full buffers
    ins = _EMU.decode_instruction(addr)
    return (ins.name(), ins.length())


def _cls(pre) -> str:
    return "none" if pre is None else "pre"


def judge_shape(data: bytes, addr: int, consumers: bool, pre, op) -> List[Tuple[str, str]]:
    """All C01 verdicts for one buffer: truncation law + consumer agreement."""
    out: List[Tuple[str, str]] = []
    tag = f"op={op:02X}/{_cls(pre)}"
    res: List[Any] = []
    lens = list(range(len(data) + 1))
    first = drv.info_fp_fresh(data, addr)      # asked of a new architecture object before anything shorter was seen at this address
    if not consumers:
        # reduced truncation set (quick tier, prefixes outside the consumer set): the full buffer,
        # the exact length, one byte less; every length when the full buffer is rejected.
        try:
            full0 = drv.info_fp(data, addr)
        except Exception:  # noqa: BLE001
            full0 = None
        if full0 is not None and 1 <= full0[0] <= len(data):
            lens = sorted({full0[0] - 1, full0[0], len(data)})
    if lens != list(range(len(data) + 1)):
        return _judge_reduced(data, addr, lens, tag, first)
    for L in range(len(data) + 1):
        try:
            res.append(drv.info_fp(data[:L], addr))
        except Exception as exc:  # noqa: BLE001
            out.append((f"C01/info-raises/{type(exc).__name__}/{tag}",
                        f"get_instruction_info({data[:L].hex()}) raised {type(exc).__name__}: {exc}"))
            res.append("EXC")
    if first != "EXC" and res[len(data)] != "EXC" and res[len(data)] != first:
        out.append((f"C01/answer-depends-on-earlier-requests/{tag}", f"get_instruction_info({data.hex()}) @ {addr:#x}: a new architecture object says "
                    f"{first}, the one that was asked for the shorter buffers {[data[:k].hex() for k in range(1, len(data))][:3]}.. first says {res[len(data)]}"))
    acc = [L for L, r in enumerate(res) if r not in (None, "EXC")]
    if acc:
        L0 = acc[0]
        ln0 = res[L0][0]
        if not (1 <= ln0 <= L0):
            out.append((f"C01/length-out-of-range/{tag}",
                        f"{data[:L0].hex()} accepted with length {ln0} from {L0} bytes"))
        elif ln0 != L0:
            out.append((f"C01/prefix-rejected-but-longer-accepted/{tag}",
                        f"{data[:L0].hex()} accepted len {ln0} but shorter buffer {data[:ln0].hex()} rejected"))
        for L in range(L0 + 1, len(data) + 1):
            if res[L] == "EXC":
                continue
            if res[L] is None:
                out.append((f"C01/trailing-bytes-cause-reject/{tag}",
                            f"{data[:L0].hex()} is accepted (len {ln0}) but {data[:L].hex()} is rejected"))
                break
            if res[L] != res[L0]:
                out.append((f"C01/trailing-bytes-change-result/{tag}",
                            f"{data[:L0].hex()} -> {res[L0]} but {data[:L].hex()} -> {res[L]}"))
                break
    if consumers:
        full = res[len(data)]
        text = il = None
        try:
            text = drv.text_fp(data, addr)
        except Exception as exc:  # noqa: BLE001
            out.append((f"C01/text-raises/{type(exc).__name__}/{tag}",
                        f"get_instruction_text({data.hex()}) raised {type(exc).__name__}: {exc}"))
            text = "EXC"
        try:
            il = drv.il_fp(data, addr)
        except Exception as exc:  # noqa: BLE001
            out.append((f"C01/il-raises/{type(exc).__name__}/{tag}",
                        f"get_instruction_low_level_il({data.hex()}) raised {type(exc).__name__}: {exc}"))
            il = "EXC"
        emu = None
        try:
            emu = emu_fetch(data, addr)
        except Exception as exc:  # noqa: BLE001
            out.append((f"C01/emulator-fetch-raises/{type(exc).__name__}/{tag}",
                        f"Emulator.decode_instruction on {data.hex()} raised {type(exc).__name__}: {exc}"))
            emu = "EXC"
        if full not in (None, "EXC"):
            ln = full[0]
            if text is None:
                out.append((f"C01/info-accepts-text-rejects/{tag}", f"{data.hex()}: info len {ln}, text None"))
            elif text != "EXC" and text[1] != ln:
                out.append((f"C01/text-length-differs/{tag}", f"{data.hex()}: info {ln} text {text[1]}"))
            if il is None:
                out.append((f"C01/info-accepts-il-rejects/{tag}", f"{data.hex()}: info len {ln}, IL None"))
            elif il != "EXC" and il[0] != ln:
                out.append((f"C01/il-length-differs/{tag}", f"{data.hex()}: info {ln} il {il[0]}"))
            if emu not in (None, "EXC"):
                if emu[1] != ln:
                    out.append((f"C01/emulator-length-differs/{tag}", f"{data.hex()}: info {ln} emulator {emu}"))
                if text not in (None, "EXC"):
                    mnem = text[2]
                    if emu[0] != mnem:
                        out.append((f"C01/emulator-mnemonic-differs/{tag}",
                                    f"{data.hex()}: text '{text[0]}' emulator name {emu[0]}"))
    return out


def _judge_reduced(data, addr, lens, tag, first="EXC"):
    out = []
    r = {}
    for L in lens:
        try:
            r[L] = drv.info_fp(data[:L], addr)
        except Exception as exc:  # noqa: BLE001
            out.append((f"C01/info-raises/{type(exc).__name__}/{tag}", f"info({data[:L].hex()}) raised {exc}"))
            return out
    full = r[len(data)]
    if first != "EXC" and full != first:
        out.append((f"C01/answer-depends-on-earlier-requests/{tag}", f"get_instruction_info({data.hex()}) @ {addr:#x}: a new architecture object says "
                    f"{first}, the shared one says {full} after shorter buffers"))
    if full is None:
        return out
    ln = full[0]
    if r[ln] != full:
        out.append((f"C01/trailing-bytes-change-result/{tag}", f"{data[:ln].hex()} -> {r[ln]} but {data.hex()} -> {full}"))
    if ln - 1 in r and r[ln - 1] is not None and ln - 1 != len(data):
        out.append((f"C01/prefix-rejected-but-longer-accepted/{tag}",
                    f"{data[:ln-1].hex()} accepted as {r[ln-1]} although {data.hex()} has length {ln}"))
    return out


def _shard_a(args, stop_at: Optional[str] = None):
    pairs, tails, consumers_pres = args
    ev = acc = 0
    viol = VB()
    done: List[Any] = []
    for pre, op in pairs:
        done.append([pre, op])
        for b2 in range(256):
            head = (bytes([pre]) if pre is not None else b"") + bytes([op, b2])
            for tail in tails:
                data = (head + tail)[: drv.MAXLEN]
                vs = judge_shape(data, ADDR, pre in consumers_pres, pre, op)
                ev += (len(data) + 1) if pre in consumers_pres else 3
                for sig, what in vs:
                    viol.add(sig, what, lambda: {"part": "A", "bytes": data.hex(), "addr": ADDR,
                                                 "pre": pre, "op": op,
                                                 "shard": _ser("A", (done, tails, consumers_pres))})
                if stop_at is not None and data.hex() == stop_at:
                    return {"ev": ev, "acc": acc, "viol": viol, "last": vs}
                try:
                    if drv.info_fp(data, ADDR) is not None:
                        acc += 1
                except Exception:  # noqa: BLE001
                    pass
    return {"ev": ev, "acc": acc, "viol": viol}


# ---- part C: followers -------------------------------------------------------

def follower_classes() -> Dict[Tuple[int, str], bytes]:
    """One follower byte string per (opcode, outcome class when decoded alone)."""
    out: Dict[Tuple[int, str], bytes] = {}
    for op in range(256):
        for b2 in range(256):
            for tail in (drv.TAILS["00"], drv.TAILS["mix"]):
                d = bytes([op, b2]) + tail
                ins, err = drv.py_decode(d, ADDR)
                cls = err or ("none" if ins is None else "ok")
                out.setdefault((op, cls), d)
    # truncated followers (BufferTooShort inside the follower)
    for op in range(256):
        out.setdefault((op, "short"), bytes([op]))
    return out


def first_reps(pres) -> List[Tuple[Optional[int], int, bytes]]:
    reps = []
    for pre in pres:
        for op in range(256):
            for b2 in (0x00, 0x04, 0x12, 0x30, 0x80, 0xC4):
                head = (bytes([pre]) if pre is not None else b"") + bytes([op, b2])
                d = head + drv.TAILS["mix"]
                try:
                    r = drv.info_fp(d, ADDR)
                except Exception:  # noqa: BLE001
                    r = None
                if r is not None:
                    reps.append((pre, op, d[: r[0]]))
                    break
    return reps


def _shard_c(args):
    reps, followers = args
    ev = 0
    viol = VB()
    sh = lambda: _ser("C", args)  # noqa: E731
    for pre, op, first in reps:
        try:
            base = drv.info_fp(first, ADDR)
        except Exception:  # noqa: BLE001
            continue
        for (fop, fcls), fol in followers:
            d = first + fol
            ev += 1
            try:
                r = drv.info_fp(d, ADDR)
            except Exception as exc:  # noqa: BLE001
                viol.add(f"C01/info-raises/{type(exc).__name__}/follower={fcls}",
                         f"info({d.hex()}) raised {exc}",
                         lambda: {"part": "C", "first": first.hex(), "follower": fol.hex(), "shard": sh()})
                continue
            if r != base:
                viol.add(f"C01/follower-changes-first/{_cls(pre)}/follower={fcls}",
                         f"{first.hex()} alone -> {base}; followed by {fol.hex()} -> {r}",
                         lambda: {"part": "C", "first": first.hex(), "follower": fol.hex(), "shard": sh()})
        # followers that share the opcode (and prefix) but differ in the operand bytes: everything the three
        # callbacks say about the first instruction (length, text, IL) must stay what it is alone
        fullbase = drv.full_fp(first, ADDR)
        k = 1 if pre is None else 2
        if len(first) > k:
            for flip in (0x01, 0x02, 0x04, 0x10, 0x21, 0x40, 0xFF):
                for withpre in ((False, True) if pre is not None else (False,)):
                    fol = (first[:1] if withpre else b"") + first[k - 1:k] + bytes([first[k] ^ flip]) + bytes(x ^ 0x5A for x in first[k + 1:]) + drv.TAILS["mix"]
                    d = first + fol
                    ev += 1
                    r2 = drv.full_fp(d, ADDR)
                    if r2 != fullbase:
                        which = [n for n, a, b in zip(("info", "text", "il"), fullbase, r2) if a != b]
                        viol.add(f"C01/same-opcode-follower-changes-first/{_cls(pre)}/{'+'.join(which)}",
                                 f"{first.hex()} alone -> {str(fullbase)[:160]}; followed by {fol.hex()} -> {str(r2)[:160]}",
                                 lambda: {"part": "C", "first": first.hex(), "follower": fol.hex(), "full": True, "shard": sh()})
        # operand bytes at their extreme values (00 / 80 / FF), one position at a time: all consumers must still agree
        for pos in range(k + 1, len(first)):
            for v in (0x00, 0x80, 0xFF):
                dd = bytearray(first)
                dd[pos] = v
                dd = bytes(dd) + drv.TAILS["mix"]
                for sg, what in judge_shape(dd[:7], ADDR, True, pre, op):
                    ev += 1
                    viol.add(sg + "/operand-extreme", what, lambda dd=dd: {"part": "A", "bytes": dd[:7].hex(), "addr": ADDR, "pre": pre, "op": op})
    return {"ev": ev, "viol": viol}


def _shard_c_full(args):
    first, heads = args
    base = drv.info_fp(first, ADDR)
    ev = 0
    viol = VB()
    if base is None:
        return {"ev": 0, "viol": viol}
    for op2, b22 in heads:
        for tail in (drv.TAILS["00"], drv.TAILS["mix"]):
            d = first + bytes([op2, b22]) + tail
            ev += 1
            try:
                r = drv.info_fp(d, ADDR)
            except Exception as exc:  # noqa: BLE001
                r = ("EXC", type(exc).__name__)
            if r != base:
                viol.add(f"C01/follower-changes-first/full/op2={op2:02X}",
                         f"{first.hex()} alone -> {base}; with follower {d[len(first):].hex()} -> {r}",
                         {"part": "C", "first": first.hex(), "follower": d[len(first):].hex()})
    return {"ev": ev, "viol": viol}


# ---- part D: histories ---------------------------------------------------------

def history_reps(limit_per_op: int) -> List[bytes]:
    reps: List[bytes] = []
    seen = set()
    for pre in (None, 0x32, 0x25):
        for op in range(256):
            n = 0
            for b2 in range(0, 256, 1):
                head = (bytes([pre]) if pre is not None else b"") + bytes([op, b2])
                d = (head + drv.TAILS["mix"])[:7]
                ins, err = drv.py_decode(d, ADDR)
                if ins is None or ins.name().startswith("PRE"):
                    continue
                try:
                    key = (pre, op, ins.length(), tuple(type(t).__name__ for t in ins.render()))
                except Exception as exc:  # noqa: BLE001 - a rendering failure is part A's finding; keep the representative
                    key = (pre, op, ins.length(), ("render-raises", type(exc).__name__))
                if key in seen:
                    continue
                seen.add(key)
                reps.append(d)
                n += 1
                if n >= limit_per_op:
                    break
    return reps


def _obj_fp(ins, addr):
    il = drv.MockLowLevelILFunction()
    try:
        ins.lift(il, addr)
        ilc = drv.il_canon(il)
    except Exception as exc:  # noqa: BLE001
        ilc = ("EXC", type(exc).__name__)
    try:
        text = drv.asm_str(ins.render())
    except Exception as exc:  # noqa: BLE001 - totality of rendering is judged in part A
        text = ("EXC", type(exc).__name__)
    try:
        enc = bytes(drv.encode(ins, addr)).hex()
    except Exception as exc:  # noqa: BLE001
        enc = ("EXC", type(exc).__name__)
    return (text, ins.length(), enc, ilc)


def _shard_d(args):
    a_list, reps = args
    ev = 0
    viol = VB()
    sh = lambda: {"a_list": list(a_list), "reps": [r.hex() for r in reps]}  # noqa: E731
    base = [drv.full_fp(b, ADDR) for b in reps]
    base_rev = [drv.full_fp(b, ADDR) for b in reversed(reps)][::-1]
    for i, (x, y) in enumerate(zip(base, base_rev)):
        if x != y:
            viol.add("C01/history-changes-decode", f"{reps[i].hex()} decodes differently on a second pass",
                     lambda: {"part": "D", "A": reps[i].hex(), "B": reps[i].hex(), "shard": sh()})
    for ai in a_list:
        A = reps[ai]
        for bi, B in enumerate(reps):
            drv.full_fp(A, ADDR)
            insA, _ = drv.py_decode(A, ADDR)
            objA = _obj_fp(insA, ADDR)
            fpB = drv.full_fp(B, ADDR)
            ev += 1
            if fpB != base[bi]:
                viol.add("C01/history-changes-decode", f"decoding {B.hex()} after {A.hex()} differs from fresh",
                         lambda: {"part": "D", "A": A.hex(), "B": B.hex(), "shard": sh()})
            insB, _ = drv.py_decode(B, ADDR)
            if _obj_fp(insA, ADDR) != objA:
                viol.add("C01/later-decode-mutates-earlier-instruction",
                         f"instruction object of {A.hex()} changed after decoding {B.hex()}",
                         lambda: {"part": "D", "A": A.hex(), "B": B.hex(), "shard": sh()})
    return {"ev": ev, "viol": viol}


# ---- part E: addresses ---------------------------------------------------------

def _shard_e(args):
    reps, addrs = args
    ev = 0
    viol = VB()
    sh = lambda: _ser("E", args)  # noqa: E731
    for d in reps:
        for a in addrs:
            ev += 1
            fps = []
            for name, f in (("info", drv.info_fp), ("text", drv.text_fp), ("il", drv.il_fp)):
                try:
                    fps.append(f(d, a))
                except Exception as exc:  # noqa: BLE001
                    viol.add(f"C01/{name}-raises/{type(exc).__name__}/addr",
                                 f"{name}({d.hex()}, {a:#x}) raised {type(exc).__name__}: {exc}",
                             lambda: {"part": "E", "bytes": d.hex(), "addr": a, "shard": sh()})
                    fps.append("EXC")
            try:
                emu = emu_fetch(d, a)
            except Exception as exc:  # noqa: BLE001
                viol.add(f"C01/emulator-fetch-raises/{type(exc).__name__}/addr",
                         f"Emulator.decode_instruction({d.hex()} @ {a:#x}) raised {type(exc).__name__}: {exc}",
                         lambda: {"part": "E", "bytes": d.hex(), "addr": a, "shard": sh()})
                emu = "EXC"
            info, text, il = fps
            if info not in (None, "EXC"):
                ln = info[0]
                if text in (None,) or (text != "EXC" and text[1] != ln):
                    viol.add("C01/addr/text-disagrees", f"{d.hex()}@{a:#x}: info {ln} text {text}",
                             lambda: {"part": "E", "bytes": d.hex(), "addr": a, "shard": sh()})
                if il in (None,) or (il != "EXC" and il[0] != ln):
                    viol.add("C01/addr/il-disagrees", f"{d.hex()}@{a:#x}: info {ln} il len {il and il[0]}",
                             lambda: {"part": "E", "bytes": d.hex(), "addr": a, "shard": sh()})
                if emu != "EXC" and emu[1] != ln:
                    viol.add("C01/addr/emulator-disagrees", f"{d.hex()}@{a:#x}: info {ln} emu {emu}",
                             lambda: {"part": "E", "bytes": d.hex(), "addr": a, "shard": sh()})
    return {"ev": ev, "viol": viol}


def _ser(part, args):
    """Serialise shard arguments so a history-dependent violation can be replayed in context."""
    if part == "A":
        pairs, tails, cons = args
        return {"pairs": [list(p) for p in pairs], "tails": [t.hex() for t in tails],
                "consumers": sorted(str(c) for c in cons)}
    if part == "C":
        reps, fol = args
        return {"reps": [[p, o, f.hex()] for p, o, f in reps],
                "fol": [[k[0], k[1], v.hex()] for k, v in fol]}
    if part == "E":
        reps, addrs = args
        return {"reps": [r.hex() for r in reps], "addrs": list(addrs)}
    raise ValueError(part)


def _prep(args):
    kind, a = args
    if kind == "fol":
        return sorted(follower_classes().items())
    if kind == "reps":
        return first_reps(a)
    return history_reps(a)


def _deser(part, d):
    if part == "A":
        return ([tuple(p) for p in d["pairs"]], [bytes.fromhex(t) for t in d["tails"]],
                {None if c == "None" else int(c) for c in d["consumers"]})
    if part == "C":
        return ([(p, o, bytes.fromhex(f)) for p, o, f in d["reps"]],
                [((a, b), bytes.fromhex(v)) for a, b, v in d["fol"]])
    if part == "E":
        return ([bytes.fromhex(r) for r in d["reps"]], d["addrs"])
    if part == "D":
        return (d["a_list"], [bytes.fromhex(r) for r in d["reps"]])
    raise ValueError(part)


def _in_context(part, w, sig) -> Optional[str]:
    """Re-run the recorded shard (the decode history the violation was seen under)."""
    if "shard" not in w or sig is None:
        return None
    f = {"A": _shard_a, "C": _shard_c, "E": _shard_e, "D": _shard_d}[part]
    r = f(_deser(part, w["shard"]))
    ent = r["viol"].d.get(sig)
    if ent:
        return "[reproduces only after the recorded decode history of its shard] " + ent[1][0][0]
    return None


def run(ctx) -> None:
    seedtail = bytes(((ctx.seed * 40503 + 101 * i + 0x5B) >> 2) & 0xFF for i in range(5))
    if ctx.thorough:
        pres = list(drv.PRE_CHOICES)
        tails = [drv.TAILS["mix"], drv.TAILS["00"], drv.TAILS["ff"]] + ([seedtail] if ctx.seed else [])
        consumers = set(pres)
        hist_per_op = 4
        hist_stride = 1
    else:
        extra = drv.PRE_BYTES[ctx.seed % len(drv.PRE_BYTES)]
        pres = list(drv.PRE_CHOICES)
        tails = [drv.TAILS["mix"] if not ctx.seed else bytes(a ^ b for a, b in zip(drv.TAILS["mix"], seedtail))]
        consumers = {None, 0x32, extra}
        hist_per_op = 1
        hist_stride = 3
    n = nproc()
    # Part A
    pairs = [(p, op) for p in pres for op in range(256)]
    resA = pmap(_shard_a, [(s, tails, consumers) for s in chunks(pairs, n * 2)])
    ctx.log(f"part A done: {sum(r['ev'] for r in resA)} decodes")
    # Part C
    fol, reps, hreps = pmap(_prep, [("fol", None), ("reps", pres if ctx.thorough else [None, 0x32, 0x25, 0x21]),
                                     ("hist", hist_per_op)])
    hreps = hreps[::hist_stride]
    resC = pmap(_shard_c, [(s, fol) for s in chunks(reps, n * 2)])
    full_firsts = [bytes.fromhex(h) for h in (["00", "0812", "3200", "e904123456", "56301234"] if not ctx.thorough else
                   ["00", "0812", "3200", "e904123456", "56301234", "25cf1234", "f9", "d00412"])]
    heads = [(a, b) for a in range(256) for b in range(256)]
    jobs = [(f, h) for f in full_firsts for h in chunks(heads, 8)]
    resC2 = pmap(_shard_c_full, jobs)
    ctx.log(f"part C done: {sum(r['ev'] for r in resC) + sum(r['ev'] for r in resC2)} decodes, "
            f"{len(reps)} first-instruction reps x {len(fol)} follower classes")
    # Part D
    resD = pmap(_shard_d, [(s, hreps) for s in chunks(list(range(len(hreps))), n * 2)])
    ctx.log(f"part D done: {len(hreps)}^2 ordered pairs")
    # Part E
    ereps = hreps if ctx.thorough else hreps[:: max(1, len(hreps) // 300)]
    resE = pmap(_shard_e, [(s, ADDRS) for s in chunks(ereps, n * 2)])
    for r in resA + resC + resC2 + resD + resE:
        ctx.merge_bucket(r["viol"])
    ev = sum(r["ev"] for r in resA + resC + resC2 + resD + resE)
    ctx.coverage.update({
        "evaluations": ev,
        "distinct_nontrivial": sum(r["acc"] for r in resA),
        "exhaustive": True,
        "part_A_truncation_decodes": sum(r["ev"] for r in resA),
        "part_C_follower_decodes": sum(r["ev"] for r in resC + resC2),
        "part_D_history_pairs": sum(r["ev"] for r in resD),
        "part_E_address_cases": sum(r["ev"] for r in resE),
        "rule": (f"A: {len(pres)} prefix choices x 256 x 256 x {len(tails)} tails, every truncation length 0..7 through "
                 "get_instruction_info; text/IL callbacks + Emulator.decode_instruction on the full buffer for prefix "
                 f"set {sorted(str(p) for p in consumers)}. C: {len(reps)} first-instruction representatives x "
                 f"{len(fol)} follower classes (one per opcode x decode-alone outcome) + {len(full_firsts)} firsts x all 65536 "
                 f"follower heads x 2 tails. D: all ordered pairs of {len(hreps)} representatives. E: "
                 f"{len(ereps)} representatives x {len(ADDRS)} addresses. distinct_nontrivial = distinct full "
                 "buffers accepted by get_instruction_info in part A."),
        "samples": [
            {"part": "A", "buffer": (bytes([0x32, 0x10, 0x20]) + tails[0])[:7].hex(), "lengths": "0..7"},
            {"part": "C", "first": reps[0][2].hex(), "follower": fol[3][1].hex(), "follower_class": fol[3][0][1]},
            {"part": "D", "A": hreps[1].hex(), "B": hreps[2].hex()},
            {"part": "E", "bytes": ereps[0].hex(), "addr": hex(ADDRS[-1])},
        ],
    })
    ctx.assumptions += [
        "operand bytes beyond the second are raw immediates for decoding purposes (C02 sweeps every position)",
        "the arch callbacks run against binja_test_mocks, as in the repository's own tests",
    ]


def replay(ctx, w, sig=None) -> Optional[str]:
    # first in the decode history it was seen under (a direct replay would itself change process-wide caches), then alone
    r = None
    if w.get("part") in ("A", "C", "E", "D") and "shard" in w and sig:
        r = _in_context(w["part"], w, sig)
    if r is None:
        r = _replay1(w)
    return r


def _replay1(w) -> Optional[str]:
    part = w.get("part")
    if part == "A":
        data = bytes.fromhex(w["bytes"])
        vs = judge_shape(data, w["addr"], True, w.get("pre"), w.get("op", data[0]))
        if vs:
            return vs[0][1]
        return None
    if part == "C":
        first = bytes.fromhex(w["first"])
        fol = bytes.fromhex(w["follower"])
        if w.get("full"):
            a = drv.full_fp(first, ADDR)
            b = drv.full_fp(first + fol, ADDR)
            return None if a == b else f"{first.hex()} -> {str(a)[:200]} but with follower {fol.hex()} -> {str(b)[:200]}"
        try:
            a = drv.info_fp(first, ADDR)
            b = drv.info_fp(first + fol, ADDR)
        except Exception as exc:  # noqa: BLE001
            return f"raised {exc}"
        return None if a == b else f"{first.hex()} -> {a} but with follower {fol.hex()} -> {b}"
    if part == "D":
        A = bytes.fromhex(w["A"])
        B = bytes.fromhex(w["B"])
        r = _shard_d(([0], [A, B]))
        # also same-process double decode
        return next(iter(r["viol"].d.values()))[1][0][0] if len(r["viol"]) else None
    if part == "E":
        r = _shard_e(([bytes.fromhex(w["bytes"])], [w["addr"]]))
        return next(iter(r["viol"].d.values()))[1][0][0] if len(r["viol"]) else None
    return None
