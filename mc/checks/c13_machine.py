"""C13, machine level: however the cycle counter advances (single instructions, multi-cycle WAIT, idle HALT/OFF cycles,
interrupt entry), after every step each enabled timer's next target is the FIRST boundary of its own phase that lies
strictly after the cycle counter (never in the past: a boundary would fire late or twice; never further: a boundary
would be skipped), a crossed boundary has set its status bit, and disabled / zero-period timers never fire.
Both machines; where their cycle counters advance identically the firing sequences are compared step for step."""
from __future__ import annotations

import itertools
from typing import Any, Dict, List, Tuple

from .. import machine as M
from .. import rustbridge as rb
from ..core import VB, nproc
from ..par import pmap, chunks
from . import c12

PROGS = ["nop", "wait", "halt", "off", "isr_clear", "imr_on", "rst"]
TIMERS = [(True, 1, 0), (True, 2, 0), (True, 3, 0), (True, 5, 0), (True, 0, 2), (True, 0, 3), (True, 2, 3), (True, 3, 2), (True, 4, 6),
          (True, 7, 5), (False, 2, 3), (True, 0, 0)]
IMRS = [0x00, 0x81, 0x83]


def monitor(impl: str, name: str, cfg, obs: List[Dict[str, Any]], vb: VB, wit, strict_cal=None) -> List[Tuple]:
    """Alignment-agnostic rules. The Python machine ticks its timers once at the start of a step with the counter value
    before the step (and once per simulated WAIT cycle), the Rust machine after the instruction for every cycle it
    consumed; neither ticks while an interrupt handler runs. So with c0/c1 the counter before/after a step and p the
    target before it:  every implementation has ticked at some cycle >= c0 and <= c1."""
    en, mti, sti = cfg["timer"]
    fires = []
    prev = None
    # Self-consistency of the tick alignment: if, while instructions execute, every step leaves each target strictly
    # after the counter (the machine ticks up to and including the new counter value), idle HALT cycles must do the same;
    # otherwise a boundary fires one cycle later while halted than while running.
    def judged(a, b):
        return _judged(a, b)
    strict = strict_cal or {"next_mti": False, "next_sti": False}
    for k in range(1, len(obs)):
        a, b = obs[k - 1], obs[k]
        if judged(a, b) and a["power"] == "halted" and b["power"] == "halted":
            for tname, key in (("mti", "next_mti"), ("sti", "next_sti")):
                if strict[key] and b[key] <= b["cycles"]:
                    vb.add(f"C13/machine/{impl}/halted-ticks-lag-behind-running-ticks/{tname}", f"{impl} {name}: step {k} (halted): counter "
                           f"{a['cycles']}->{b['cycles']} but the next {tname} target is {b[key]}; while running this machine always leaves "
                           f"the target beyond the counter", wit)
        elif judged(a, b) and a["power"] == "running" and b["power"] == "running":
            # the same self-consistency for every executed instruction (WAIT burns several cycles in one step): a machine that, on a
            # NOP loop with these timers, has always ticked up to the new counter value must not leave a boundary behind here
            for tname, key in (("mti", "next_mti"), ("sti", "next_sti")):
                if strict[key] and b[key] <= b["cycles"]:
                    vb.add(f"C13/machine/{impl}/step-leaves-boundary-unticked/{tname}", f"{impl} {name}: step {k}: counter {a['cycles']}->{b['cycles']} "
                           f"but the next {tname} target is still {b[key]}; on a NOP loop this machine always leaves the target beyond the counter", wit)
    for k, o in enumerate(obs):
        c1 = o["cycles"]
        isr = o["imem"][0xFC]
        if prev is None or o["in_interrupt"] or prev["in_interrupt"] or o["power"] == "off" or prev["power"] == "off" or c1 == prev["cycles"]:
            prev = o
            continue
        c0 = prev["cycles"]
        for tname, period, key, bit in (("mti", mti, "next_mti", 0x01), ("sti", sti, "next_sti", 0x02)):
            nxt, p = o[key], prev[key]
            newly = bool(isr & bit) and not (prev["imem"][0xFC] & bit)
            if not en or period <= 0:
                if newly:
                    vb.add(f"C13/machine/{impl}/disabled-timer-fired/{tname}", f"{impl} {name}: step {k}: {tname} status bit set although the timer is "
                           f"{'disabled' if not en else 'zero-period'}", wit)
                continue
            if nxt <= c0:
                vb.add(f"C13/machine/{impl}/target-not-in-the-future/{tname}", f"{impl} {name}: step {k}: counter {c0}->{c1} (timers ticked) but the next "
                       f"{tname} target is still {nxt}", wit)
            if nxt - period > c1:
                vb.add(f"C13/machine/{impl}/boundary-skipped/{tname}", f"{impl} {name}: step {k}: counter {c1}, next {tname} target {nxt} is more than one "
                       f"period ({period}) ahead: the boundary at {nxt - period} never fires", wit)
            if (nxt - p) % period != 0:
                vb.add(f"C13/machine/{impl}/phase-changed/{tname}", f"{impl} {name}: step {k}: {tname} target moved from {p} to {nxt}, not a multiple of "
                       f"the period {period}", wit)
            if nxt != p:
                fires.append((k, tname))
            if p <= c0 and not (isr & bit) and "isr_clear" not in name and "|clr|" not in name and not name.startswith("rst|"):      # RESET clears the status register
                vb.add(f"C13/machine/{impl}/crossed-boundary-without-status-bit/{tname}", f"{impl} {name}: step {k}: counter {c0}->{c1} passed the {tname} "
                       f"boundary {p} but ISR={isr:#04x}", wit)
            if nxt != p and not (isr & bit) and "isr_clear" not in name and "|clr|" not in name and not name.startswith("rst|"):
                # the timer moved its target past a boundary (it counts the boundary as fired): "firing sets the corresponding status bit"
                vb.add(f"C13/machine/{impl}/fired-without-status-bit/{tname}", f"{impl} {name}: step {k}: counter {c0}->{c1}, the {tname} target moved "
                       f"{p}->{nxt} but ISR={isr:#04x} lacks the {tname} bit", wit)
            if newly and p > c1:
                vb.add(f"C13/machine/{impl}/fired-without-boundary/{tname}", f"{impl} {name}: step {k}: {tname} status bit set between cycles "
                       f"{c0} and {c1} but the next boundary was {p}", wit)
            if nxt != p and p > c1:
                vb.add(f"C13/machine/{impl}/target-moved-without-boundary/{tname}", f"{impl} {name}: step {k}: {tname} target moved {p}->{nxt} although the "
                       f"counter only reached {c1}", wit)
        prev = o
    return fires


def _judged(a, b) -> bool:
    return not (a["in_interrupt"] or b["in_interrupt"] or a["power"] == "off" or b["power"] == "off" or a["cycles"] == b["cycles"])


def calibrate(obs: List[Dict[str, Any]], cfg) -> Dict[str, bool]:
    """Tick alignment of one machine, measured on a plain NOP loop with the same timers: strict = after every executed
    instruction each target lies beyond the counter although boundaries were crossed (the machine ticks up to the new
    counter value)."""
    en, mti, sti = cfg["timer"]
    out = {}
    for key, per in (("next_mti", mti), ("next_sti", sti)):
        steps = [(a, b) for a, b in zip(obs, obs[1:]) if _judged(a, b) and a["power"] == "running" and b["power"] == "running"]
        crossed = sum(1 for a, b in steps if b[key] != a[key])
        out[key] = bool(en and per > 0 and crossed >= 2 and all(b[key] > b["cycles"] for _, b in steps))
    return out


def _shard(args):
    combos, steps = args
    h = rb.harness()
    vb = VB()
    n = 0
    cal: Dict[Tuple, Tuple] = {}
    for (p, hn, imr, timer) in combos:
        cfg = c12.make_cfg(p, hn, imr, timer)
        name = f"{p}|{hn}|imr={imr:02x}|t={int(timer[0])},{timer[1]},{timer[2]}"
        hist = [("step",)] * steps
        wit = {"machine": True, "cfg": [p, hn, imr, list(timer)], "steps": steps}
        po = M.run_py(cfg, hist)
        ro = M.run_rs(h, cfg, hist)
        ck = (imr & 0x7F, timer)              # calibration: NOP loop, interrupts masked, same timers
        if ck not in cal:
            ccfg = c12.make_cfg("nop", "reti", imr & 0x7F, timer)
            cal[ck] = (calibrate(M.run_py(ccfg, hist), ccfg), calibrate(M.run_rs(h, ccfg, hist), ccfg))
        fp = monitor("python", name, cfg, po, vb, wit, cal[ck][0])
        fr = monitor("rust", name, cfg, ro, vb, wit, cal[ck][1])
        n += 2 * steps
        if p in ("nop", "wait", "halt") and hn == "reti":
            # the same run with a key held on a strobed column from the start: key events (and the KEYI status bit they raise on
            # a tick) must not cost a timer its status bit or its boundary
            histk = [("press", "KEY_Q")] + hist
            witk = dict(wit, key=True)
            monitor("python", name + "|key", cfg, M.run_py(cfg, histk)[1:], vb, witk, cal[ck][0])
            monitor("rust", name + "|key", cfg, M.run_rs(h, cfg, histk)[1:], vb, witk, cal[ck][1])
            n += 2 * steps
    return {"n": n, "configs": len(combos), "vb": vb}


def run_machine(ctx) -> Dict[str, Any]:
    hands = ["reti", "clr"]
    combos = list(itertools.product(PROGS, hands, IMRS, TIMERS if ctx.thorough else TIMERS[:4] + TIMERS[5:8] + TIMERS[10:]))
    steps = 48 if ctx.thorough else 24
    res = pmap(_shard, [(c, steps) for c in chunks(combos, nproc() * 2)])
    for r in res:
        ctx.merge_bucket(r["vb"])
    return {"configs": len(combos), "steps_each": steps, "monitored_steps": sum(r["n"] for r in res)}


def replay(w):
    vb = VB()
    p, hn, imr, timer = w["cfg"]
    _ = _shard(([(p, hn, imr, tuple(timer))], w["steps"]))
    for sig, (cnt, wl) in _["vb"].d.items():
        return wl[0][0]
    return None
