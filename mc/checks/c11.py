"""C11 — the memory bus behaves like memory: separate spaces, immutable ROM, little-endian words.

Model checking of store/load histories on three real objects: Python PCE500Memory, Rust MemoryImage and the
CPU-facing bus of CoreRuntime (through two-instruction store/load programs), for every memory configuration of a
product (ROM image, card absent/8..64 KiB/read-only, RAM/ROM overlays, mirror, read-only range), against a
reference byte map built from the configuration the check applied.
"""
from __future__ import annotations

import itertools
from typing import Any, Dict, List, Optional, Tuple

from ..core import VB, nproc
from ..par import pmap, chunks
from ..spec.membus import RefBus
from .. import rustbridge as rb

from pce500.memory import PCE500Memory

PALETTE = [0x000000, 0x001FFF, 0x002000, 0x00200F, 0x002010, 0x03FFFF, 0x040000, 0x041FFF, 0x042000, 0x04FFFF, 0x050000, 0x05000E, 0x05000F,
           0x07FFFF, 0x080000, 0x08000F, 0x080010, 0x087FFF, 0x088000, 0x0B7FFF, 0x0B8000, 0x0BFFFF, 0x0C0000, 0x0FFEFF, 0x0FFF00, 0x0FFFFA,
           0x0FFFFF, 0x100000, 0x1000EC, 0x1000EF, 0x1000F3, 0x1000FB, 0x1000FF]
ALIASES = [0x1000000, 0xFF000000]
VALUES = [0x00, 0xA5, 0x5AA5C3]
ROM_BYTE = lambda a: ((a * 13) ^ (a >> 8) ^ 0x3C) & 0xFF  # noqa: E731


def probes() -> List[int]:
    s = set()
    for a in PALETTE:
        for d in (-1, 0, 1, 2):
            x = a + d
            if 0 <= x <= 0x1000FF:
                s.add(x)
    return sorted(s)


def configs(thorough: bool) -> List[Dict[str, Any]]:
    out = []
    cards = [None, 0, 8192, 65536] + ([16384, 32768] if thorough else [])
    for rom, card, ovl, mirror, ro in itertools.product((False, True), cards, (False, True), (False, True), (False, True)):
        cfg: Dict[str, Any] = {"mirror": mirror}
        if rom:
            cfg["rom_image"] = (0xC0000, 0x40000)
        if card is not None:
            cfg["card"] = card
        if ovl:
            cfg["ram_overlays"] = [(0x50000, 0x10)]
            cfg["rom_overlays"] = [(0x7FFF0, 0x20)]
        if ro:
            cfg["readonly"] = [(0x00000, 0x01FFF)]
        out.append(cfg)
        if ovl and not rom and not mirror and not ro:
            adj = dict(cfg)
            adj["ram_overlays"] = [(0x50000, 0x10), (0x50010, 0x10)]     # two adjacent RAM overlays: accesses may span both
            out.append(adj)
        if ovl and ro and not rom and not mirror:
            ino = dict(cfg)
            ino["ram_overlays"] = [(0x01FF0, 0x20)]       # a RAM overlay straddling the end of the read-only range 0..0x1FFF
            out.append(ino)
        if ovl and not rom and not mirror and not ro and card is None:
            und = dict(cfg)
            und["underlay"] = True      # the external bytes under the overlays were written before the overlays were installed
            out.append(und)
        if ovl and not rom and not mirror and not ro and card in (None, 8192):
            tap = dict(cfg)
            # passive descriptor overlays (no storage, no handlers; Rust only) laid over the start of the RAM overlay, the end of the
            # card window and plain RAM: they decline every access, so nothing read or written through them may change
            tap["taps"] = [(0x4FFF8, 0x10), (0x41FF8, 0x10), (0xB8000, 0x8)]
            out.append(tap)
        if ovl and not rom and not mirror and not ro and card is None:
            one = dict(cfg)
            one["ram_overlays"] = [(0x50000, 1)]          # overlays of exactly one byte: a 24-bit access can be centred on them
            one["rom_overlays"] = [(0x5000F, 1)]
            out.append(one)
        if ro and not rom and not ovl and not mirror and card is None:
            nest = dict(cfg)
            nest["readonly"] = [(0x00000, 0x3FFFF), (0x02000, 0x0200F)]      # a read-only range nested inside a larger one (Rust image)
            out.append(nest)
        if card and not rom and not ovl and not mirror and not ro:
            rem = dict(cfg)
            rem["card_removed"] = True       # the card is loaded and then taken out: the slot must behave as absent
            out.append(rem)
        if card and not rom and not ovl and not mirror and not ro:
            roc = dict(cfg)
            roc["card_writable"] = False       # read-only card (Python only: the Rust image has no such switch)
            out.append(roc)
        if rom and not ovl and not mirror and not ro and card is None:
            lap = dict(cfg)
            # a RAM overlay laid across the start of the ROM window (Python bus: the overlay that starts lower owns the shared bytes);
            # which overlay answers must not depend on what was accessed before
            lap["ram_overlays"] = [(0xBFFF0, 0x20)]
            lap["overlap"] = True
            out.append(lap)
        if rom and not mirror and not ro:
            short = dict(cfg)
            short["rom_len"] = 0x100          # image shorter than the 0xC0000-0xFFFFF window (Python only: overlay data < window)
            out.append(short)
    return out


# ---- drivers -------------------------------------------------------------------------------

_ROM_CACHE: Dict[Tuple[int, int], bytes] = {}
_CARD_CACHE: Dict[int, bytes] = {}


def make_py(cfg) -> PCE500Memory:
    m = PCE500Memory()
    if cfg.get("rom_image"):
        start, size = cfg["rom_image"]
        if (start, size) not in _ROM_CACHE:
            _ROM_CACHE[(start, size)] = bytes(ROM_BYTE(start + i) for i in range(size))
        m.load_rom(_ROM_CACHE[(start, size)][: cfg.get("rom_len", size)])
    card = cfg.get("card")
    if card is not None:
        if card == 0:
            m.set_memory_card_present(False)
        else:
            if card not in _CARD_CACHE:
                _CARD_CACHE[card] = bytes(((i & 0xFF) ^ 0x5A) for i in range(card))
            m.load_memory_card(_CARD_CACHE[card], card, writable=cfg.get("card_writable", True))
            if cfg.get("card_removed"):
                m.set_memory_card_present(False)
    if cfg.get("underlay"):
        for start, size in list(cfg.get("ram_overlays", [])) + list(cfg.get("rom_overlays", [])):
            for k in range(size):
                m.write_byte(start + k, 0xE1 ^ (k & 0xFF))
    for i, (start, size) in enumerate(cfg.get("ram_overlays", [])):
        m.add_ram(start, size, f"ramov{i}")
    for i, (start, size) in enumerate(cfg.get("rom_overlays", [])):
        m.add_rom(start, bytes((((k & 0xFF) * 7) & 0xFF) ^ 0xC3 for k in range(size)), f"romov{i}")
    return m


def run_py(cfg, hist, pr) -> Tuple[List[Any], List[int]]:
    m = make_py(cfg)
    outs = []
    for op in hist:
        if op[0] == "st":
            m.write_bytes(op[2], op[1], op[3] & ((1 << (8 * op[2])) - 1))
            outs.append(None)
        else:
            v = m.read_bytes(op[1], op[2])
            # the word/long helpers must agree with the generic multi-byte read: when one differs its value is reported
            alt = m.read_word(op[1]) if op[2] == 2 else m.read_long(op[1]) if op[2] == 3 else v
            if alt != v:
                # the two entry points disagree: the one that is not the little-endian composition of the byte reads is reported
                comp = sum((m.read_byte(op[1] + k) & 0xFF) << (8 * k) for k in range(op[2]))
                v = alt if v == comp else v
            outs.append(v)
    pv = [m.read_byte(p) for p in pr]
    # the probes once more in descending order: what a location reads must not depend on which one was read before it
    for i in range(len(pr) - 1, -1, -1):
        v2 = m.read_byte(pr[i])
        if v2 != pv[i]:
            pv[i] = v2
    return outs, pv


def rs_cfg(cfg):
    c: Dict[str, Any] = {"mirror": bool(cfg.get("mirror"))}
    if cfg.get("card") is not None:
        c["card"] = cfg["card"]
        if cfg.get("card_removed"):
            c["card_removed"] = True
    if cfg.get("ram_overlays"):
        c["ram_overlays"] = [list(x) for x in cfg["ram_overlays"]]
    if cfg.get("rom_overlays"):
        c["rom_overlays"] = [list(x) for x in cfg["rom_overlays"]]
    if cfg.get("taps"):
        c["taps"] = [list(x) for x in cfg["taps"]]
    ro = [list(x) for x in cfg.get("readonly", [])]
    if cfg.get("rom_image"):
        start, size = cfg["rom_image"]
        ro.append([start, start + size - 1])
        c["ext"] = []   # filled lazily by the harness request builder (only probed ROM bytes are needed)
    if ro:
        c["readonly"] = ro
    return c


def rs_req(cfg, hist, pr):
    c = rs_cfg(cfg)
    if cfg.get("rom_image"):
        start, size = cfg["rom_image"]
        want = set(p for p in pr if start <= (p & 0xFFFFFF) < start + size)
        for op in hist:
            for k in range(op[2]):
                a = (op[1] + k) & 0xFFFFFF
                if start <= a < start + size:
                    want.add(a)
        c["ext"] = [[a, ROM_BYTE(a)] for a in sorted(want)]
    ops = []
    for op in hist:
        if op[0] == "st":
            ops.append({"st": [op[1] & 0xFFFFFFFF, op[2] * 8, op[3] & ((1 << (8 * op[2])) - 1)]})
        else:
            ops.append({"ld": [op[1] & 0xFFFFFFFF, op[2] * 8]})
    ops.append({"probe": pr})
    return {"cmd": "mem", "cfg": c, "script": ops}


def rs_unpack(resp, hist):
    outs = []
    for op, o in zip(hist, resp["out"]):
        outs.append(None if op[0] == "st" else o.get("v"))
    return outs, resp["out"][-1]["probe"]


def run_ref(cfg, hist, pr, impl: str):
    c = dict(cfg)
    c["rom_byte"] = ROM_BYTE
    if c.get("card_removed"):
        c["card"] = 0                          # a card that was taken out again: the slot is absent
    if impl == "python":
        c["mirror"] = False
        c["readonly"] = []                     # PCE500Memory has no read-only ranges besides overlays
        if c.get("card") is None:
            c["card"] = 65536                  # default slot: present, writable, zero filled
            c["card_fill_name"] = "zero"
        elif c["card"]:
            c["card_fill_name"] = "xor5a"
            c["card_slot_tail_absent"] = True
    else:
        if c.get("card"):
            c["card_fill_name"] = "xor5a"
    r = RefBus(c)
    outs = []
    for op in hist:
        if op[0] == "st":
            for k in range(op[2]):
                r.write(op[1] + k, (op[3] >> (8 * k)) & 0xFF)
            outs.append(None)
        else:
            bs = [r.read(op[1] + k) for k in range(op[2])]
            outs.append(None if any(b is None for b in bs) else sum(b << (8 * k) for k, b in enumerate(bs)))
    return outs, [r.read(p) for p in pr], r


def region(a: int) -> str:
    a &= 0xFFFFFF
    if a >= 0x100100:
        return "beyond-space"
    if a >= 0x100000:
        return "internal"
    for lo, hi, n in ((0xFFF00, 0xFFFFF, "top-256"), (0xC0000, 0xFFFFF, "rom-window"), (0xB8000, 0xBFFFF, "ram"),
                      (0x80000, 0xB7FFF, "mirror-window"), (0x50000, 0x7FFFF, "ext-5-7"), (0x40000, 0x4FFFF, "card-slot"),
                      (0x00000, 0x3FFFF, "low")):
        if lo <= a <= hi:
            return n
    return "?"


def ref_for(cfg, impl: str) -> RefBus:
    c = dict(cfg)
    c["rom_byte"] = ROM_BYTE
    if c.get("card_removed"):
        c["card"] = 0
    if impl == "python":
        c["mirror"] = False
        c["readonly"] = []
        if c.get("card") is None:
            c["card"] = 65536
            c["card_fill_name"] = "zero"
        elif c["card"]:
            c["card_fill_name"] = "xor5a"
            c["card_slot_tail_absent"] = True
    elif c.get("card"):
        c["card_fill_name"] = "xor5a"
    return RefBus(c)


def judge(impl, cfg, hist, outs, probe_vals, pr, vb: VB, pre_probe: Optional[List[int]] = None) -> Tuple:
    """Judge the LAST transition of hist against the implementation's own pre-state (pre_probe), so that a
    violation is attributed to the operation that causes it; with pre_probe=None the whole history is judged
    against the reference (used for the initial state and the load scripts)."""
    wit = lambda: {"impl": impl, "cfg": _cfg_json(cfg), "history": [list(o) for o in hist]}  # noqa: E731
    cfgtag = "+".join(k for k in ("rom_image", "rom_len", "card", "ram_overlays", "taps", "overlap", "readonly", "mirror") if cfg.get(k)) or "plain"
    if cfg.get("card_writable") is False:
        cfgtag += "+card-readonly"
    if cfg.get("underlay"):
        cfgtag += "+underlay"
    if cfg.get("card_removed"):
        cfgtag += "+card-removed"
    if pre_probe is None:
        ref_outs, ref_probe, r = run_ref(cfg, hist, pr, impl)
        for i, (a, b) in enumerate(zip(outs, ref_outs)):
            if b is not None and a != b:
                op = hist[i]
                mchunk = {((op[1] + k) & 0xFFFFFF) >> 15 for k in range(op[2]) if r.mirror and 0x80000 <= ((op[1] + k) & 0xFFFFFF) <= 0xBFFFF}
                stra = "/straddles-region-boundary" if len(mchunk) > 1 or len({(r.key(op[1] + k) or ("none",))[0:2] if (r.key(op[1] + k) or ("x",))[0] == "ov" else
                                                              ((r.key(op[1] + k) or ("none",))[0], region(op[1] + k)) for k in range(op[2])}) > 1 else ""
                vb.add(f"C11/{impl}/load-value/{region(op[1])}{stra}",
                       f"{impl} cfg[{cfgtag}]: load{op[2] * 8}({op[1]:#x}) = {a if a is None else hex(a)} expected {b:#x} "
                       f"(little-endian composition of the bytes / alias of the same location)", wit)
                break
        bad = [(p, g, w) for p, g, w in zip(pr, probe_vals, ref_probe) if w is not None and g != w]
        if bad:
            p, g, w = bad[0]
            vb.add(f"C11/{impl}/contents/{region(p)}", f"{impl} cfg[{cfgtag}]: after {_h(hist[:3])}.. byte {p:#x} reads "
                   f"{g if g is None else hex(g)} expected {w:#x}", wit)
        return tuple(probe_vals)
    r = ref_for(cfg, impl)
    op = hist[-1]
    targets: Dict[Any, int] = {}
    undocumented = False
    kinds = set()
    for k in range(op[2]):
        key = r.key(op[1] + k)
        if key is None:
            undocumented = True
        else:
            targets[key] = (op[3] >> (8 * k)) & 0xFF
            a24 = (op[1] + k) & 0xFFFFFF
            kinds.add((key[0], key[1] if key[0] == "ov" else None, r.writable(key),
                       region(op[1] + k) if key[0] == "ext" else "",
                       (a24 >> 15) if (r.mirror and 0x80000 <= a24 <= 0xBFFFF) else None))
    if undocumented:
        return tuple(probe_vals)      # touches 0x100100..0xFFFFFF: outside the documented space, not judged
    parts = set()
    for k in range(op[2]):
        key = r.key(op[1] + k)
        if key[0] == "int":
            parts.add(("internal", 0))
        elif key[0] == "ov":
            parts.add((f"overlay-{key[2]}", key[1]))
        else:
            a24 = (op[1] + k) & 0xFFFFFF
            parts.add(("ext" + ("" if r.writable(key) else "-readonly") + ("-mirrored" if (r.mirror and 0x80000 <= a24 <= 0xBFFFF) else ""),
                       (a24 >> 15) if (r.mirror and 0x80000 <= a24 <= 0xBFFFF) else 0))
    straddle = ("/straddles-region-boundary:" + "+".join(sorted(n for n, _ in parts))) if len(kinds) > 1 else ""
    tkinds = {k[0] if k[0] != "ov" else "ext" for k in targets}
    for p, before, after in zip(pr, pre_probe, probe_vals):
        key = r.key(p)
        if key is None:
            continue
        if key in targets and r.writable(key):
            want = targets[key]
            if after != want:
                vb.add(f"C11/{impl}/lost-or-wrong-write/{region(op[1])}{straddle}",
                       f"{impl} cfg[{cfgtag}]: st{op[2] * 8}({op[1]:#x},{op[3]:#x}) then byte {p:#x} reads {after:#x}, expected {want:#x} "
                       f"(history {_h(hist)})", wit)
        elif after != before:
            pk = key[0] if key[0] != "ov" else "ext"
            if key in targets:
                law = "readonly-changed"
            elif pk not in tkinds:
                law = "internal-external-alias"
            else:
                law = "other-location-changed"
            vb.add(f"C11/{impl}/{law}/{region(op[1])}->{region(p)}{straddle}",
                   f"{impl} cfg[{cfgtag}]: st{op[2] * 8}({op[1]:#x},{op[3]:#x}) changed byte {p:#x} from {before:#x} to {after:#x} "
                   f"(history {_h(hist)})", wit)
    return tuple(probe_vals)


def _h(hist) -> str:
    return "[" + ", ".join((f"st{o[2] * 8}({o[1]:#x},{o[3]:#x})" if o[0] == "st" else f"ld{o[2] * 8}({o[1]:#x})") for o in hist) + "]"


def _cfg_json(cfg):
    return {k: (list(v) if isinstance(v, tuple) else v) for k, v in cfg.items()}


def events(seed: int) -> List[Tuple]:
    ev = []
    addrs = list(PALETTE) + [a + al for a in (0x000000, 0x040000, 0x0B8000, 0x0FFEFF, 0x100000, 0x1000FF) for al in ALIASES] + [0x100100, 0xFFFFFF]
    vals = list(VALUES)
    if seed:
        vals.append((seed * 0x9E3779B1) & 0xFFFFFF)
    for a in addrs:
        for w in (1, 2, 3):
            for v in (vals if w > 1 else [0x5A, 0xA5, 0x00]):      # 0x00 = "write the initial value back"
                ev.append(("st", a, w, v))
    return ev


def _shard(args):
    impl, cfgs, first, evs, depth = args
    pr = probes()
    vb = VB()
    h = rb.harness() if impl == "rust" else None
    trans = 0
    states = 0

    def execute(cfg, hists):
        if impl == "rust":
            res = []
            for i in range(0, len(hists), 300):
                part = hists[i:i + 300]
                for hist, resp in zip(part, h.batch([rs_req(cfg, x, pr) for x in part])):
                    res.append(rs_unpack(resp, hist) if "out" in resp else (None, None))
            return res
        return [run_py(cfg, x, pr) for x in hists]

    for cfg in cfgs:
        (o0, p0), = execute(cfg, [()])
        judge(impl, cfg, (), o0, p0, pr, vb, None)           # initial contents vs reference
        seen = {tuple(p0)}
        cur = [((e,), p0) for e in first]
        d = 1
        while cur and d <= depth:
            nxt = []
            results = execute(cfg, [x[0] for x in cur])
            for (hist, pre), (outs, pv) in zip(cur, results):
                if pv is None:
                    vb.add("C11/rust/harness-error", "harness failed", {"impl": impl, "cfg": _cfg_json(cfg), "history": [list(o) for o in hist]})
                    continue
                k = judge(impl, cfg, hist, outs, pv, pr, vb, pre)
                trans += 1
                if k not in seen:
                    seen.add(k)
                    if d < depth:
                        nxt.extend((hist + (e,), pv) for e in evs)
            cur = nxt
            d += 1
        states += len(seen)
    return {"states": states, "transitions": trans, "vb": vb}


def _loads(args):
    """load16/24 == little-endian composition of byte loads, and all 32-bit aliases read the same, on a seeded memory."""
    impl, cfgs = args
    pr = probes()
    vb = VB()
    h = rb.harness() if impl == "rust" else None
    n = 0
    seedops = tuple(("st", a, 1, (a * 29 + 7) & 0xFF) for a in pr if a % 3 != 1)
    loads = tuple(("ld", a + al, w, 0) for a in PALETTE for w in (1, 2, 3) for al in (0, 0x1000000, 0xFF000000))
    for cfg in cfgs:
        hist = seedops + loads
        if impl == "rust":
            outs, pv = rs_unpack(h.call(rs_req(cfg, hist, pr)), hist)
        else:
            outs, pv = run_py(cfg, hist, pr)
        judge(impl, cfg, hist, outs, pv, pr, vb, None)
        n += len(loads)
    return {"states": 0, "transitions": n, "vb": vb}


def _loaders(args):
    """The machine-level loader entry points of the Rust core (full 1 MiB system image, short system image, ROM window):
    whichever is used, stores into the ROM window and the read-only low window change nothing, stores into RAM do."""
    loader, length = args
    h = rb.harness()
    vb = VB()
    n = 0
    for addr, ro in ((0xC0000, True), (0xC0C00, True), (0xFFFFD, True), (0x00000, True), (0x01000, True), (0x3FFFE, True),
                     (0xB8000, False), (0xBFFFD, False), (0x80000, False)):
        for bits, val in ((8, 0x5A), (16, 0xA55A), (24, 0xC3A55A)):
            r = h.call({"cmd": "sysimage", "loader": loader, "len": length,
                        "script": [{"ld": [addr, bits]}, {"st": [addr, bits, val]}, {"ld": [addr, bits]}]})
            n += 1
            if "err" in r:
                vb.add(f"C11/rust/loader/{loader}/error", f"{loader}({length:#x}) failed: {r['err']}", {"loader": loader, "len": length})
                break
            before, after = r["out"][0]["v"], r["out"][2]["v"]
            if ro and after != before:
                vb.add(f"C11/rust/loader/{loader}-{length:#x}/readonly-window-changed", f"rust memory set up by {loader} with a {length:#x}-byte image: "
                       f"st{bits}({addr:#x},{val:#x}) changed what is read there from {before:#x} to {after:#x}", {"loader": loader, "len": length})
            if not ro and after != val:
                vb.add(f"C11/rust/loader/{loader}-{length:#x}/ram-write-lost", f"rust memory set up by {loader} with a {length:#x}-byte image: "
                       f"st{bits}({addr:#x},{val:#x}) then load gives {after}", {"loader": loader, "len": length})
    return {"n": n, "vb": vb}


def run(ctx) -> None:
    rb.build()
    cfgs = configs(ctx.thorough)
    evs = events(ctx.seed)
    depth = 2
    small = [e for e in evs if (e[3] in (0xA5, 0x5AA5C3, 0x5A) or (e[3] == 0 and e[2] == 1)) and e[1] in (0x0, 0x1FFF, 0x40000, 0x41FFF, 0x4FFFF, 0x5000F, 0x87FFF, 0xB8000, 0xBFFFF,
                                                                           0xC0000, 0xFFFFF, 0x1000FF, 0x1000EC, 0x100000, 0xFFF00)]
    jobs = []
    n = nproc()
    for impl in ("python", "rust"):
        use = [c for c in cfgs if (impl == "rust" and not c.get("rom_len") and c.get("card_writable", True) and not c.get("underlay") and not c.get("overlap")) or (impl == "python" and not (c.get("mirror") or c.get("readonly") or c.get("taps")))]
        for cs in chunks(use, n):
            jobs.append((impl, cs, evs, small if not ctx.thorough else evs[::2], depth))
    res = pmap(_shard, jobs)
    lres = pmap(_loads, [(impl, cs) for impl in ("python", "rust")
                         for cs in chunks([c for c in cfgs if (impl == "rust" and not c.get("rom_len") and c.get("card_writable", True) and not c.get("underlay") and not c.get("overlap")) or (impl == "python" and not (c.get("mirror") or c.get("readonly") or c.get("taps")))], 4)])
    ldres = pmap(_loaders, [("system_image", 0x100000), ("system_image", 0x40000), ("rom_window", 0x40000)])
    ctx.coverage["loader_entry_point_accesses"] = sum(r["n"] for r in ldres)
    for r in res + lres + ldres:
        ctx.merge_bucket(r["vb"])
    ctx.level = "model_checking"
    ctx.coverage.update({
        "states": sum(r["states"] for r in res),
        "transitions": sum(r["transitions"] for r in res + lres),
        "traces_validated_against_impl": sum(r["transitions"] for r in res + lres),
        "configurations": len(cfgs),
        "alphabet": len(evs),
        "probed_bytes_per_state": len(probes()),
        "exhaustive": True,
        "rule": (f"per configuration (product of ROM image, card none/absent/8K/64K(+16K/32K), RAM+ROM overlay, mirror, read-only "
                 f"range = {len(cfgs)} configs; Python gets the {len([c for c in cfgs if not (c.get('mirror') or c.get('readonly') or c.get('taps'))])} "
                 f"without mirror/read-only ranges) all store histories of length <= {depth} over {len(evs)} stores (8/16/24 bit at "
                 f"{len(PALETTE)} boundary addresses + 32-bit aliases), second level restricted to a {len(small)}-store subset in quick; "
                 f"after every history {len(probes())} probe bytes are read back and compared with the reference byte map "
                 "(read-after-write, nothing else changes, internal/external separate, read-only unchanged, LE composition); plus "
                 "8/16/24-bit loads at every palette address and its 32-bit aliases on a seeded memory"),
        "samples": [{"impl": "rust", "cfg": _cfg_json(cfgs[5]), "history": [list(evs[40]), list(small[3])]}],
    })
    ctx.assumptions += ["addresses 0x100100..0xFFFFFF lie outside the documented 1 MiB + 256 B space and are not judged",
                        "device windows (LCD, keyboard) are not installed on the bare memory objects; the CPU-facing bus is covered by "
                        "the machine drivers (C12/C16)"]


def replay(ctx, w) -> Optional[str]:
    if "loader" in w:
        rb.build()
        r = _loaders((w["loader"], w["len"]))
        for sig, (cnt, wl) in r["vb"].d.items():
            return wl[0][0]
        return None
    rb.build()
    cfg = {k: ([tuple(x) for x in v] if k in ("ram_overlays", "rom_overlays", "readonly", "taps") else (tuple(v) if k == "rom_image" else v))
           for k, v in w["cfg"].items()}
    hist = tuple(tuple(o) for o in w["history"])
    pr = probes()
    vb = VB()
    def ex(hh):
        if w["impl"] == "rust":
            return rs_unpack(rb.harness().call(rs_req(cfg, hh, pr)), hh)
        return run_py(cfg, hh, pr)
    outs, pv = ex(hist)
    if hist and all(o[0] == "st" for o in hist):
        _, pre = ex(hist[:-1])
        judge(w["impl"], cfg, hist, outs, pv, pr, vb, pre)
    else:
        judge(w["impl"], cfg, hist, outs, pv, pr, vb, None)
    for sig, (cnt, wl) in vb.d.items():
        return wl[0][0]
    return None
