"""C07 — an instruction's effect depends only on architectural state.

Metamorphic exploration on both cores (no reference needed):
  A  scratch/bookkeeping independence: every structural shape executed with TEMP0-13 = 0 / all ones /
     a pattern and with empty vs pre-loaded call bookkeeping -> identical architectural result
  B  history independence: all ordered pairs (H, X) of an instruction palette: X after H in the same
     emulator / harness process vs X from a fresh object holding the same architectural state
  C  determinism: same request twice in one process and once in a fresh process
  D  split runs: loop skeletons, every split N+M <= K: run(N+M) == run(N); run(M) with only
     architectural state carried over
  E  self-modifying code: an instruction rewritten in memory is re-fetched (decoder caches)
"""
from __future__ import annotations

from typing import Any, Dict, List, Optional, Tuple

from ..core import VB, nproc
from ..par import pmap, chunks
from .. import drv, pycpu, shapes
from .. import rustbridge as rb
from . import c06

CODE = 0x1000
TEMP_VARIANTS = [
    {},
    {i: 0xFFFFFF for i in range(14)},
    {i: (0x123456 * (i + 3)) & 0xFFFFFF for i in range(14)},
]


def arch(o: Dict[str, Any]) -> Tuple:
    if o.get("panic"):
        return ("panic", o["panic"])
    return (tuple(o["regs"][n] for n in pycpu.ARCH_REGS), tuple(o["lens"]), tuple(map(tuple, o["writes"])),
            o["power"] != "running", bool(o.get("err")))


def _shard_a(args):
    pairs, tail, st = args
    h = rb.harness()
    vb = VB()
    n = 0
    for pre, op in pairs:
        for d in shapes.shapes_for(pre, op, tail):
            ins, _ = drv.py_decode(d, CODE)
            d = d[: ins.length()]
            regs, mem, fill = c06.build_case(d, st, CODE)
            # python
            base = None
            for vi, temps in enumerate(TEMP_VARIANTS):
                for csl in (0, 5):
                    emu, fm = pycpu.make(regs, mem, fill, temps=temps, call_sub_level=csl)
                    o = pycpu.run(regs, mem, fill, emu_fm=(emu, fm))
                    n += 1
                    a = arch(o)
                    if base is None:
                        base = a
                    elif a != base:
                        vb.add(f"C07/python/scratch-dependence/{ins.name()}/op={op:02X}",
                               f"{d.hex()} '{drv.asm_str(ins.render())}': result depends on TEMP variant {vi} / call_sub_level {csl}",
                               {"part": "A", "bytes": d.hex(), "state": c06_state(st)})
            # rust
            reqs = []
            for temps in TEMP_VARIANTS:
                for frames in ([], [0x12345, 0x23456, 0x34567]):
                    r = dict(regs)
                    for i, v in temps.items():
                        r[f"TEMP{i}"] = v
                    q = c06.rs_req(r, mem, fill)
                    q["call_frames"] = frames
                    reqs.append(q)
            outs = h.batch(reqs)
            n += len(outs)
            b0 = arch(outs[0])
            for k, o in enumerate(outs[1:], 1):
                if arch(o) != b0:
                    vb.add(f"C07/rust/scratch-dependence/{ins.name()}/op={op:02X}",
                           f"{d.hex()} '{drv.asm_str(ins.render())}': result depends on TEMP/call-stack variant {k}: "
                           f"{_diff(outs[0], o)}",
                           {"part": "A", "bytes": d.hex(), "state": c06_state(st)})
                    break
    return {"n": n, "vb": vb}


def _diff(a, b) -> str:
    out = []
    for n in pycpu.ARCH_REGS:
        if a["regs"][n] != b["regs"][n]:
            out.append(f"{n} {a['regs'][n]:#x}->{b['regs'][n]:#x}")
    if a["writes"] != b["writes"]:
        out.append("memory writes differ")
    if a["lens"] != b["lens"]:
        out.append(f"lens {a['lens']} {b['lens']}")
    return ", ".join(out) or "?"


def c06_state(st):
    return {"bpx": list(st["bpx"]), "bg": st["bg"], "F": st["F"], "fill": st["fill"]}


def _after(regs, mem, fill, o) -> Tuple[Dict[str, int], Dict[int, int]]:
    """Architectural state after an execution result o (registers + memory)."""
    r2 = {n: o["regs"][n] for n in ("BA", "I", "X", "Y", "U", "S", "PC", "F")}
    m2 = dict(mem)
    for a, v in o["writes"]:
        m2[a] = v
    return r2, m2


LP = [bytes.fromhex(x) for x in ("de", "df", "32ccf8ff", "32ccf800", "32ccfeff", "32ccfe00", "32ccf827", "32ccfe04")]


def lp_sequences(pal):
    """Histories that pass through HALT/OFF (part B skips them: its histories are one instruction and must leave the core
    running): low-power instruction, then the program rewrites the status registers HALT/OFF touch (USR, SSR), then any
    instruction - in particular HALT/OFF again."""
    seqs = [[a, b, c] for a in LP[:2] for b in LP[2:] for c in LP[:2]]
    seqs += [[a, b, c, d] for a in LP[:2] for b in LP[2:4] for c in LP[4:6] for d in LP[:2]]
    seqs += [[a, b, a2, c, d] for a in LP[:2] for b in (LP[2], LP[3]) for a2 in LP[:2] for c in (LP[3], LP[5]) for d in LP[:2]]
    seqs += [[a, x] for a in LP[:2] for x in pal]
    return seqs


def _shard_lp(args):
    seqs, st = args
    h = rb.harness()
    vb = VB()
    n = 0
    for seq in seqs:
        code = b"".join(seq) + bytes(4)
        last_lp = seq[-1] in LP[:2]
        regs, mem, fill = c06.build_case(code, st, CODE)
        k = len(seq)
        w = {"part": "L", "seq": [x.hex() for x in seq], "state": c06_state(st)}
        mn = "+".join(c06._mnemonic(x + bytes(4)) for x in seq)
        # ---- python: the last instruction in the emulator that ran the history (woken up, as a wake-up event does) vs a fresh one
        emu, fm = pycpu.make(regs, mem, fill)
        o1 = pycpu.run(regs, mem, fill, steps=k - 1, emu_fm=(emu, fm), ignore_power=True)
        if not o1["err"] and len(o1["lens"]) == k - 1:
            emu.state.halted = False
            fm.written.clear()
            o2 = pycpu.run(regs, mem, fill, steps=1, emu_fm=(emu, fm), ignore_power=True)
            r2, m2 = _after(regs, mem, fill, o1)
            of = pycpu.run(r2, m2, fill, steps=1, ignore_power=True)
            n += 1
            if arch(o2) != arch(of):
                vb.add(f"C07/python/low-power-history/{mn}",
                       f"after {[x.hex() for x in seq[:-1]]}, executing {seq[-1].hex()} in the same emulator differs from a fresh "
                       f"emulator with the same registers/memory: {_diff(o2, of)}", dict(w, impl="python"))
        # ---- rust: k steps in one LlamaState vs k-1 steps + fresh LlamaState
        a2, a1 = h.batch([c06.rs_req(regs, mem, fill, steps=k, ignore_power=True), c06.rs_req(regs, mem, fill, steps=k - 1, ignore_power=True)])
        if a1.get("panic") or a1.get("err") or a2.get("panic") or a2.get("err"):
            continue
        rr, mm = _after(regs, mem, fill, a1)
        rr["IMR"] = a1["regs"]["IMR"]
        af = h.call(c06.rs_req(rr, mm, fill, steps=1, ignore_power=True))
        comb = dict((a, v) for a, v in a1["writes"])
        comb.update((a, v) for a, v in af.get("writes", []))
        n += 1
        same = (not af.get("panic")) and all(a2["regs"][r] == af["regs"][r] for r in pycpu.ARCH_REGS) and \
            sorted(comb.items()) == sorted((a, v) for a, v in a2["writes"]) and (not last_lp or a2["power"] == af["power"])
        if not same:
            vb.add(f"C07/rust/low-power-history/{mn}",
                   f"after {[x.hex() for x in seq[:-1]]}, executing {seq[-1].hex()} in the same LlamaState differs from a fresh "
                   f"LlamaState with the same registers/memory: {_diff(a2, af) if not af.get('panic') else af}", dict(w, impl="rust"))
    return {"n": n, "vb": vb}


def _shard_b(args):
    hs, pal, st = args
    h = rb.harness()
    vb = VB()
    n = 0
    for H in hs:
        for X in pal:
            code = H + X + bytes(4)
            regs, mem, fill = c06.build_case(code, st, CODE)
            # ---- python: same emulator vs fresh one from the same architectural state
            emu, fm = pycpu.make(regs, mem, fill)
            o1 = pycpu.run(regs, mem, fill, steps=1, emu_fm=(emu, fm))
            if o1["err"] or o1["power"] != "running":
                continue
            pc1 = o1["regs"]["PC"]
            fm.written.clear()
            o2 = pycpu.run(regs, mem, fill, steps=1, emu_fm=(emu, fm))      # X in the same emulator
            r2, m2 = _after(regs, mem, fill, o1)
            of = pycpu.run(r2, m2, fill, steps=1)                            # X in a fresh emulator
            n += 1
            if arch(o2) != arch(of):
                vb.add(f"C07/python/history-dependence/{c06._mnemonic(H)}+{c06._mnemonic(X + bytes(4))}",
                       f"after {H.hex()}, executing {X.hex()} in the same emulator differs from a fresh emulator with the "
                       f"same registers/memory: {_diff(o2, of)}",
                       {"part": "B", "H": H.hex(), "X": X.hex(), "state": c06_state(st)})
            # ---- rust: two steps in one LlamaState vs step + fresh LlamaState
            q2 = c06.rs_req(regs, mem, fill, steps=2)
            q1 = c06.rs_req(regs, mem, fill, steps=1)
            a2, a1 = h.batch([q2, q1])
            if a1.get("panic") or a1.get("err") or a1["power"] != "running" or a2.get("panic"):
                continue
            rr, mm = _after(regs, mem, fill, a1)
            rr["IMR"] = a1["regs"]["IMR"]
            af = h.call(c06.rs_req(rr, mm, fill, steps=1))
            # combine: final regs must match, writes(two-step) == writes(step1) + writes(fresh)
            comb = dict((a, v) for a, v in a1["writes"])
            comb.update((a, v) for a, v in af.get("writes", []))
            n += 1
            same = (not af.get("panic")) and all(a2["regs"][k] == af["regs"][k] for k in pycpu.ARCH_REGS) and \
                sorted(comb.items()) == sorted((a, v) for a, v in a2["writes"]) and a2["power"] == af["power"] and \
                a2["lens"][1:] == af["lens"]
            if not same:
                vb.add(f"C07/rust/history-dependence/{c06._mnemonic(H)}+{c06._mnemonic(X + bytes(4))}",
                       f"after {H.hex()}, executing {X.hex()} in the same LlamaState differs from a fresh LlamaState with the "
                       f"same registers/memory: {_diff(a2, af) if not af.get('panic') else af}",
                       {"part": "B", "H": H.hex(), "X": X.hex(), "state": c06_state(st)})
    return {"n": n, "vb": vb}


def _shard_flow(args):
    """Control-flow scripts (mc/flow.py): the last instruction of every script executed in the object that ran the
    script so far vs in a fresh object holding the same registers and memory."""
    from .. import flow
    seqs, st = args
    h = rb.harness()
    vb = VB()
    n = 0
    for seq in seqs:
        r = flow.build(seq, st)
        if r is None or len(seq) < 2:
            continue
        regs, mem, fill, pcs = r
        k = len(seq)
        wit = {"part": "F", "flow": list(seq), "state": c06_state(st)}
        emu, fm = pycpu.make(regs, mem, fill)
        o1 = pycpu.run(regs, mem, fill, steps=k - 1, emu_fm=(emu, fm))
        if not o1["err"] and o1["power"] == "running":
            fm.written.clear()
            o2 = pycpu.run(regs, mem, fill, steps=1, emu_fm=(emu, fm))
            r2, m2 = _after(regs, mem, fill, o1)
            of = pycpu.run(r2, m2, fill, steps=1)
            n += 1
            if arch(o2) != arch(of):
                vb.add(f"C07/python/history-dependence/flow/{seq[-1]}-after-{flow.name(seq[:-1])}"[:120],
                       f"after the control-flow script {list(seq[:-1])}, executing {seq[-1]} in the same emulator differs from a fresh "
                       f"emulator with the same registers/memory: {_diff(o2, of)}", wit)
        a2, a1 = h.batch([c06.rs_req(regs, mem, fill, steps=k), c06.rs_req(regs, mem, fill, steps=k - 1)])
        if a1.get("panic") or a1.get("err") or a1["power"] != "running" or a2.get("panic"):
            continue
        rr, mm = _after(regs, mem, fill, a1)
        rr["IMR"] = a1["regs"]["IMR"]
        af = h.call(c06.rs_req(rr, mm, fill, steps=1))
        comb = dict((a, v) for a, v in a1["writes"])
        comb.update((a, v) for a, v in af.get("writes", []))
        n += 1
        same = (not af.get("panic")) and all(a2["regs"][x] == af["regs"][x] for x in pycpu.ARCH_REGS) and \
            sorted(comb.items()) == sorted((a, v) for a, v in a2["writes"]) and a2["power"] == af["power"] and \
            a2["lens"][k - 1:] == af["lens"]
        if not same:
            vb.add(f"C07/rust/history-dependence/flow/{seq[-1]}-after-{flow.name(seq[:-1])}"[:120],
                   f"after the control-flow script {list(seq[:-1])}, executing {seq[-1]} in the same LlamaState differs from a fresh "
                   f"LlamaState with the same registers/memory: {_diff(a2, af) if not af.get('panic') else af}", wit)
    return {"n": n, "vb": vb}


H_CODES = ["1210", "1310", "1810", "1b10", "1c10", "040020", "020020", "0500200", "fe", "06", "00", "0812", "4003", "9004", "32c81020"]
H_ADDRS = [0x1000, 0x1800, 0x21000, 0x2FF00]


def _part_h(args):
    """Process history: the same instruction bytes executed at several addresses, in the given order, each in a fresh
    emulator of THIS (fresh) worker process. Shards with different orders must agree on every (bytes, address)."""
    order, st = args
    out = {}
    for code_hex, addr in order:
        d = bytes.fromhex(code_hex if len(code_hex) % 2 == 0 else code_hex + "0")
        regs, mem, fill = c06.build_case(d + bytes(4), st, addr)
        o = pycpu.run(regs, mem, fill, steps=1)
        out[f"{code_hex}@{addr:x}"] = (arch(o), sorted(o["writes"]))
    return out


def _part_s(args):
    """CPUStepper.step(snapshot, image) is a pure function: calling it twice with the same arguments gives the same
    result, and the caller's register snapshot and memory image are left untouched (the next step from them must not
    see what the previous one wrote)."""
    codes, st = args
    from sc62015.pysc62015.stepper import CPUStepper, CPURegistersSnapshot
    vb = VB()
    n = 0
    shared = CPUStepper()            # one stepper object reused for every case of the shard (different images and snapshots)
    done: List[str] = []
    for d in codes:
        regs, mem, fill = c06.build_case(d + bytes(4), st, CODE)
        emu, _fm = pycpu.make(regs, mem, fill)
        snap = CPURegistersSnapshot.from_registers(emu.regs)
        image = {a: v for a, v in mem.items()}
        before_img, before_regs = dict(image), snap.to_dict()
        stepper = CPUStepper()
        outs = []
        try:
            for _ in range(3):
                r = stepper.step(snap, image)
                outs.append((r.registers.to_dict(), tuple((w.address, w.value) for w in r.memory_writes), r.instruction_length))
        except Exception as exc:  # noqa: BLE001
            continue
        n += 1
        wit = {"part": "S", "bytes": d.hex(), "state": c06_state(st)}
        if image != before_img or snap.to_dict() != before_regs:
            ch = sorted(a for a in set(image) | set(before_img) if image.get(a) != before_img.get(a))[:3]
            vb.add(f"C07/python/stepper-mutates-its-arguments/{c06._mnemonic(d + bytes(4))}", f"{d.hex()}: CPUStepper.step changed the caller's "
                   f"{'memory image at ' + str([hex(a) for a in ch]) if ch else 'register snapshot'}", wit)
        if any(o != outs[0] for o in outs[1:]):
            vb.add(f"C07/python/stepper-not-repeatable/{c06._mnemonic(d + bytes(4))}", f"{d.hex()}: three steps from the same snapshot and image differ: "
                   f"{str(outs[0])[:100]} vs {str(next(o for o in outs[1:] if o != outs[0]))[:100]}", wit)
        try:
            r = shared.step(snap, dict(before_img))
            o_sh = (r.registers.to_dict(), tuple((w.address, w.value) for w in r.memory_writes), r.instruction_length)
        except Exception as exc:  # noqa: BLE001
            o_sh = ("raised", type(exc).__name__, str(exc)[:80])
        if o_sh != outs[0]:
            vb.add(f"C07/python/stepper-depends-on-earlier-steps/{c06._mnemonic(d + bytes(4))}", f"{d.hex()}: a CPUStepper that already stepped "
                   f"{len(done)} other snapshot/image pairs gives {str(o_sh)[:100]}, a fresh stepper {str(outs[0])[:100]}", dict(wit, history=list(done)))
        done.append(d.hex())
    return {"n": n, "vb": vb}


def _loop_code(lp: List[str]) -> bytes:
    return b"".join(bytes.fromhex(x) for x in lp)


def _shard_d(args):
    lp, st, K = args
    h = rb.harness()
    vb = VB()
    code = _loop_code(lp)
    regs, mem, fill = c06.build_case(code, st, CODE)
    n = 0
    for total in range(2, K + 1):
        full_py = pycpu.run(regs, mem, fill, steps=total)
        full_rs = h.call(c06.rs_req(regs, mem, fill, steps=total))
        for N in range(1, total):
            M = total - N
            # python
            p1 = pycpu.run(regs, mem, fill, steps=N)
            r2, m2 = _after(regs, mem, fill, p1)
            p2 = pycpu.run(r2, m2, fill, steps=M)
            n += 1
            comb = dict((a, v) for a, v in p1["writes"])
            comb.update((a, v) for a, v in p2["writes"])
            if any(full_py["regs"][k] != p2["regs"][k] for k in pycpu.ARCH_REGS) or \
                    sorted(comb.items()) != sorted((a, v) for a, v in full_py["writes"]):
                vb.add(f"C07/python/split-run/{'+'.join(lp)}", f"loop {lp}: {total} steps != {N}+{M} steps: {_diff(full_py, p2)}",
                       {"part": "D", "loop": lp, "N": N, "M": M, "state": c06_state(st)})
            # rust
            a1 = h.call(c06.rs_req(regs, mem, fill, steps=N))
            if a1.get("panic") or a1.get("err"):
                continue
            rr, mm = _after(regs, mem, fill, a1)
            rr["IMR"] = a1["regs"]["IMR"]
            a2 = h.call(c06.rs_req(rr, mm, fill, steps=M))
            n += 1
            comb = dict((a, v) for a, v in a1["writes"])
            comb.update((a, v) for a, v in a2.get("writes", []))
            if full_rs.get("panic") or full_rs.get("err"):
                if not (a2.get("panic") or a2.get("err")):
                    vb.add(f"C07/rust/split-run/full-run-fails/{'+'.join(lp)}", f"loop {lp}: {total} steps in one run fail ({str(full_rs.get('panic') or full_rs.get('err'))[:120]}) "
                           f"but {N}+{M} steps from the same architectural state complete", {"part": "D", "loop": lp, "N": N, "M": M, "state": c06_state(st)})
                continue
            if a2.get("panic") or any(full_rs["regs"][k] != a2["regs"][k] for k in pycpu.ARCH_REGS) or \
                    sorted(comb.items()) != sorted((a, v) for a, v in full_rs["writes"]):
                vb.add(f"C07/rust/split-run/{'+'.join(lp)}", f"loop {lp}: {total} steps != {N}+{M} steps: "
                       f"{_diff(full_rs, a2) if not a2.get('panic') else a2}",
                       {"part": "D", "loop": lp, "N": N, "M": M, "state": c06_state(st)})
    return {"n": n, "vb": vb}


SMC = [
    # MV A,0x12 at 1000 is overwritten with MV A,0x34 by a store executed first, then executed
    # 1000: MV A,55 ; 1002: MV [01006],A ; 1006: MV A,12 (operand byte at 1007 is NOT the target; target is opcode's imm)
    # program: 1000 MV A,34 / 1002 MV [01008],A / 1006 NOP / 1007 MV A,12 (imm at 1008) / 1009 NOP
    ("0834" "a8081000" "00" "0812" "00", 4, {"A": 0x34}),
    # loop executed twice where the second pass sees a patched immediate:
    # 1000 MV A,01 / 1002 ADD A,01 / 1004 MV [01003],A / 1008 JR -8 (-> 1002) ; after pass 1 imm=2
    ("0801" "4001" "a8031000" "1308", 7, None),
]


def _part_e(st) -> Tuple[int, VB]:
    h = rb.harness()
    vb = VB()
    n = 0
    for hexcode, steps, expect in SMC:
        code = bytes.fromhex(hexcode)
        regs, mem, fill = c06.build_case(code, st, CODE)
        emu, fm = pycpu.make(regs, mem, fill)
        # same emulator, step by step
        tr = []
        for _ in range(steps):
            o = pycpu.run(regs, mem, fill, steps=1, emu_fm=(emu, fm))
            tr.append(o["regs"]["A"])
        # reference: re-create the emulator from architectural state before every step (no cache can survive)
        r2, m2 = dict(regs), dict(mem)
        tr2 = []
        for _ in range(steps):
            o = pycpu.run(r2, m2, fill, steps=1)
            r2, m2 = _after(r2, m2, fill, o)
            tr2.append(o["regs"]["A"])
        rs = h.call(c06.rs_req(regs, mem, fill, steps=steps, trace=True))
        tr3 = [t["A"] for t in rs.get("trace", [])]
        n += 3
        if tr != tr2:
            vb.add("C07/python/stale-fetch", f"self-modifying program {hexcode}: A per step {tr} vs fresh-fetch {tr2}",
                   {"part": "E", "code": hexcode})
        if tr3 != tr2:
            vb.add("C07/rust/stale-fetch", f"self-modifying program {hexcode}: rust A per step {tr3} vs fresh-fetch {tr2}",
                   {"part": "E", "code": hexcode})
        if expect and o["regs"]["A"] != expect["A"]:
            vb.add("C07/python/self-modifying-result", f"{hexcode}: final A={o['regs']['A']:#x} expected {expect['A']:#x}",
                   {"part": "E", "code": hexcode})
    return n, vb


def _part_c(args):
    """determinism: the same batch in this process twice and in a fresh harness process once."""
    cases, st = args
    vb = VB()
    reqs = []
    for d in cases:
        regs, mem, fill = c06.build_case(d, st, CODE)
        reqs.append(c06.rs_req(regs, mem, fill))
    h = rb.harness()
    a = h.batch(reqs)
    b = h.batch(list(reversed(reqs)))[::-1]
    f = rb.fresh_harness()
    c = f.batch(reqs)
    f.close()
    n = 0
    for d, x, y, z in zip(cases, a, b, c):
        n += 3
        if not (arch(x) == arch(y) == arch(z)):
            vb.add("C07/rust/nondeterministic", f"{d.hex()}: three executions from identical inputs differ", {"part": "C", "bytes": d.hex()})
        regs, mem, fill = c06.build_case(d, st, CODE)
        p1 = pycpu.run(regs, mem, fill)
        p2 = pycpu.run(regs, mem, fill)
        if arch(p1) != arch(p2):
            vb.add("C07/python/nondeterministic", f"{d.hex()}: two fresh emulators differ", {"part": "C", "bytes": d.hex()})
    return {"n": n, "vb": vb}


def run(ctx) -> None:
    rb.build()
    st_a = c06.states_for(False, ctx.seed)[0]
    st_b = c06.states_for(False, ctx.seed)[1]
    pres = list(drv.PRE_CHOICES) if ctx.thorough else [None, 0x32, 0x25, 0x37, drv.PRE_BYTES[ctx.seed % 15]]
    pairs = [(p, op) for p in pres for op in range(256) if not (p is None and op in drv.PRE_BYTES)]
    tail = bytes.fromhex("3404050607")
    resA = pmap(_shard_a, [(s, tail, st) for st in ([st_a, st_b] if ctx.thorough else [st_a]) for s in chunks(pairs, nproc() * 2)])
    ctx.log(f"part A: {sum(r['n'] for r in resA)} executions")
    pal = [bytes.fromhex(x) for x in c06.PROGRAM_PALETTE_HEX]
    pal = [p for p in pal if drv.py_decode(p + b"\x00" * 6, CODE)[0] is not None]
    hist = pal + [bytes.fromhex(x) for x in ("040610", "05081000", "fe")]  # CALL / CALLF / IR as histories
    resB = pmap(_shard_b, [(s, pal, st) for st in ([st_a, st_b] if ctx.thorough else [st_a]) for s in chunks(hist, nproc())])
    ctx.log(f"part B: {sum(r['n'] for r in resB)} (history, instruction) comparisons")
    lps = lp_sequences(pal)
    resL = pmap(_shard_lp, [(c, st_a) for c in chunks(lps, nproc())])
    ctx.log(f"part L: {sum(r['n'] for r in resL)} comparisons after histories through HALT/OFF")
    ctx.coverage["part_L_low_power_histories"] = {"sequences": len(lps), "comparisons": sum(r["n"] for r in resL)}
    from .. import flow
    fl = list(flow.scripts(5 if ctx.thorough else 4))
    resF = pmap(_shard_flow, [(c, st_a) for c in chunks(fl, nproc() * 2)])
    ctx.log(f"part F: {sum(r['n'] for r in resF)} control-flow scripts, last instruction same object vs fresh")
    resS = pmap(_part_s, [(c, st_a) for c in chunks(pal, nproc())])
    for r in resS:
        ctx.merge_bucket(r["vb"])
    ctx.coverage["part_S_stepper_purity_cases"] = sum(r["n"] for r in resS)
    # part K: machine-level bookkeeping (how earlier interrupt handlers were left) must not show after a common architectural state
    from . import c07_book
    bc = list(c07_book.cases(ctx.thorough)) + list(c07_book.width_cases())
    resK = pmap(c07_book.shard, [(impl, c) for impl in ("rust", "python") for c in chunks(bc, nproc() // 2)])
    for r in resK:
        ctx.merge_bucket(r["vb"])
    ctx.coverage["part_K_bookkeeping_runs"] = sum(r["n"] for r in resK)
    # part H: process-wide history (caches keyed without the address, module-level state)
    pairs_h = [(c, a) for c in H_CODES for a in H_ADDRS]
    orders = [pairs_h, list(reversed(pairs_h)), sorted(pairs_h, key=lambda x: (x[1], x[0])), sorted(pairs_h, key=lambda x: (-x[1], x[0]))]
    resH = pmap(_part_h, [(o, c06_state(st_a) | {"bpx": tuple(st_a["bpx"])}) for o in orders])
    for k in resH[0]:
        vals = [r[k] for r in resH]
        if any(v != vals[0] for v in vals[1:]):
            i = next(i for i, v in enumerate(vals) if v != vals[0])
            ctx.violation(f"C07/python/process-history/{c06._mnemonic(bytes.fromhex(k.split('@')[0] if len(k.split('@')[0]) % 2 == 0 else k.split('@')[0] + '0') + bytes(4))}",
                          f"{k}: the result of a fresh emulator depends on which instructions this process executed before "
                          f"(order 0: {str(vals[0])[:120]} / order {i}: {str(vals[i])[:120]})", {"part": "H", "key": k, "order": i})
    ctx.coverage["part_H_process_history_runs"] = sum(len(r) for r in resH)
    from . import c18_cpu
    ctx.coverage["part_G_runtime_step_splits"] = c18_cpu.run_step_split(ctx, "C07/rust-runtime/step-split")
    # part P: a host-backed port (python_ranges + host_read) whose value changes between reads, under every cut of step(N)
    from . import c07_host
    ctx.coverage["part_P_host_port_step_cuts"] = c07_host.run(ctx)
    K = 12 if ctx.thorough else 8
    resD = pmap(_shard_d, [(lp, st_a, K if len(lp) > 1 else max(K, 12)) for lp in c06.LOOPS])
    nE, vbE = _part_e(st_a)
    cases = [p for p in pal]
    resC = [_part_c((cases, st_a))]
    for r in resA + resB + resD + resC + resF + resL:
        ctx.merge_bucket(r["vb"])
    ctx.merge_bucket(vbE)
    total = sum(r["n"] for r in resA + resB + resD + resC) + nE
    ctx.level = "exploration"
    ctx.coverage.update({
        "evaluations": total,
        "distinct_nontrivial": sum(r["n"] for r in resB) + sum(r["n"] for r in resA) // 12,
        "part_A_executions": sum(r["n"] for r in resA),
        "part_B_pairs": sum(r["n"] for r in resB),
        "part_F_control_flow_scripts": sum(r["n"] for r in resF),
        "part_D_splits": sum(r["n"] for r in resD),
        "exhaustive": True,
        "rule": (f"A: every structural shape for prefix set {sorted(str(p) for p in pres)} x 3 TEMP fillings x 2 call-bookkeeping "
                 "variants on both cores (12 executions per shape, all must agree); B: all ordered pairs of "
                 f"{len(hist)} histories x {len(pal)} instructions, same object vs fresh object from the same "
                 f"architectural state, both cores; C: identical requests twice + fresh process; D: every split N+M<= {K} of "
                 f"{len(c06.LOOPS)} loop skeletons, both cores; E: self-modifying programs. distinct_nontrivial = number of "
                 "(history,instruction) pairs plus distinct shapes of part A."),
        "samples": [{"part": "A", "bytes": "32c81020", "temps": "0 / ffffff / pattern"},
                    {"part": "B", "H": hist[3].hex(), "X": pal[12].hex()},
                    {"part": "D", "loop": c06.LOOPS[1], "split": [3, 4]}],
    })
    ctx.assumptions += ["architectural state = BA,I,X,Y,U,S,PC,F + memory (IMR lives in memory)",
                        "machine-level split runs (PCE500Emulator.run / CoreRuntime::step) are covered by C12/C16/C18 drivers"]


def replay(ctx, w) -> Optional[str]:
    rb.build()
    part = w.get("part")
    st = w.get("state")
    if st:
        st = dict(st)
        st["bpx"] = tuple(st["bpx"])
    if part == "A":
        d = bytes.fromhex(w["bytes"])
        pre = d[0] if d[0] in drv.PRE_BYTES else None
        op = d[1] if pre is not None else d[0]
        # re-run the single shape
        vb = VB()
        regs, mem, fill = c06.build_case(d, st, CODE)
        outs = []
        for temps in TEMP_VARIANTS:
            for csl in (0, 5):
                emu, fm = pycpu.make(regs, mem, fill, temps=temps, call_sub_level=csl)
                outs.append(arch(pycpu.run(regs, mem, fill, emu_fm=(emu, fm))))
        if len(set(outs)) > 1:
            return f"python result of {d.hex()} depends on scratch state"
        h = rb.harness()
        ro = []
        for temps in TEMP_VARIANTS:
            for frames in ([], [0x12345, 0x23456, 0x34567]):
                r = dict(regs)
                for i, v in temps.items():
                    r[f"TEMP{i}"] = v
                q = c06.rs_req(r, mem, fill)
                q["call_frames"] = frames
                ro.append(arch(h.call(q)))
        if len(set(ro)) > 1:
            return f"rust result of {d.hex()} depends on scratch state"
        return None
    if part == "B":
        r = _shard_b(([bytes.fromhex(w["H"])], [bytes.fromhex(w["X"])], st))
        for sig, (cnt, wl) in r["vb"].d.items():
            return wl[0][0]
        return None
    if w.get("host"):
        from . import c07_host
        return c07_host.replay(w)
    if w.get("cpu"):
        from . import c18_cpu
        return c18_cpu.replay(w)
    if w.get("book"):
        from . import c07_book
        return c07_book.replay(w)
    if part == "L":
        r = _shard_lp(([[bytes.fromhex(x) for x in w["seq"]]], st))
        for sig, (cnt, wl) in r["vb"].d.items():
            if f"/{w.get('impl')}/" in sig or not w.get("impl"):
                return wl[0][0]
        return None
    if part == "S":
        r = _part_s(([bytes.fromhex(x) for x in w.get("history", [])] + [bytes.fromhex(w["bytes"])], st))
        for sig, (cnt, wl) in r["vb"].d.items():
            return wl[0][0]
        return None
    if part == "H":
        st0 = c06.states_for(False, 0)[0]
        pairs_h = [(c, a) for c in H_CODES for a in H_ADDRS]
        orders = [pairs_h, list(reversed(pairs_h)), sorted(pairs_h, key=lambda x: (x[1], x[0])), sorted(pairs_h, key=lambda x: (-x[1], x[0]))]
        res = pmap(_part_h, [(o, st0) for o in (orders[0], orders[w["order"]])])
        a, b = res[0][w["key"]], res[1][w["key"]]
        return None if a == b else f"{w['key']}: {str(a)[:100]} vs {str(b)[:100]}"
    if part == "F":
        r = _shard_flow(([tuple(w["flow"])], st))
        for sig, (cnt, wl) in r["vb"].d.items():
            return wl[0][0]
        return None
    if part == "D":
        r = _shard_d((w["loop"], st, w["N"] + w["M"]))
        for sig, (cnt, wl) in r["vb"].d.items():
            return wl[0][0]
        return None
    if part == "E":
        n, vb = _part_e(c06.states_for(False, 0)[0])
        for sig, (cnt, wl) in vb.d.items():
            return wl[0][0]
        return None
    if part == "C":
        r = _part_c(([bytes.fromhex(w["bytes"])], c06.states_for(False, 0)[0]))
        for sig, (cnt, wl) in r["vb"].d.items():
            return wl[0][0]
    return None
