"""C18 — the virtual-time task scheduler wakes tasks exactly on time and in order.

The exploration runs inside the Rust harness (rust/harness/src/sched.rs): every task set of the stated
families is spawned on the real AsyncDriver and driven under every budget sequence over {1,2,3,4,7}
up to the stated length followed by a draining budget; a reference discrete-event scheduler
(wake cycle, arrival order) gives the expected resumption log and event order.
CPU equivalence (AsyncRuntimeRunner vs CoreRuntime::step) is part M below (machine driver).
"""
from __future__ import annotations

from typing import Any, Dict, Optional

from ..core import VB, nproc
from .. import rustbridge as rb


def run(ctx) -> None:
    rb.build()
    h = rb.harness()
    r = h.call({"cmd": "sched", "tier": ctx.tier, "seed": ctx.seed, "threads": nproc()})
    if "panic" in r or "err" in r:
        raise RuntimeError(f"sched harness failed: {r}")
    for v in r["violations"]:
        ctx.violation(f"C18/{v.get('kind')}/{v.get('family', '?')}", v.get("what", ""),
                      {"tasks": v.get("tasks"), "budgets": v.get("budgets"), "clock0": v.get("clock0")})
    cpu = None
    try:
        from . import c18_cpu
        cpu = c18_cpu.run_cpu_equivalence(ctx, h)
    except ImportError:
        cpu = None
    ctx.level = "model_checking"
    ctx.coverage.update({
        "states": r["task_sets"] * 2,
        "transitions": r["resumptions_checked"],
        "traces_validated_against_impl": r["runs"],
        "budget_sequences_per_set": r["budget_sequences"],
        "families": r["families"],
        "exhaustive": True,
        "rule": ("task scripts over {sleep d, sleep d + emit, pending-without-sleep}, d in {0,1,2,3,5}; all sets of the "
                 "listed families (1 task: scripts <= 3/4 steps; 2 tasks: full alphabet <= 2 steps and reduced alphabet "
                 "<= 2/3; 3 and 4 tasks: reduced/tiny alphabets), spawned at clock 0 and 1000, each under every budget "
                 f"sequence of length <= {2 if not ctx.thorough else 4} over {{1,2,3,4,7}} + drain; after every budget the "
                 "(task, cycle) log must be a prefix of the reference log, after the drain equal to it; returned events == "
                 "emitted events in order; cycles_executed == clock delta. states = (task set, start clock) pairs, "
                 "transitions = task resumptions checked, traces = complete runs on the real AsyncDriver."),
        "samples": [r["sample"]],
    })
    if cpu:
        ctx.coverage["cpu_equivalence"] = cpu
    ctx.assumptions += ["a budget too small to reach the next wake cycle makes no progress; that is not judged (the statement fixes "
                        "wake cycles, order and events, not budget accounting)"]


def replay(ctx, w) -> Optional[str]:
    rb.build()
    if w.get("cpu"):
        from . import c18_cpu
        return c18_cpu.replay(w)
    r = rb.harness().call({"cmd": "sched", "replay": {"tasks": w["tasks"], "budgets": w["budgets"], "clock0": w["clock0"]}})
    v = r.get("violation")
    return f"{v['kind']}: {v['what']}" if v else None
