"""C05 — branch metadata given to Binary Ninja matches where execution actually goes.

Exhaustive enumeration: every accepted structural shape (all 16 prefix choices) x boundary addresses x the four
C/Z flag values x displacement/target palettes; the metadata of get_instruction_info is compared with the PC the
real Emulator reaches.  Inverse pairs CALL..RET, CALLF..RETF, IR..RETI over bodies x addresses.
"""
from __future__ import annotations

from typing import Any, Dict, List, Optional, Tuple

from ..core import VB, nproc
from ..par import pmap, chunks
from .. import drv, pycpu, shapes

IMEM = 0x100000
ADDRS_CF = [0x00000, 0x00FFD, 0x00FFE, 0x00FFF, 0x01000, 0x0FFFC, 0x0FFFD, 0x0FFFE, 0x0FFFF, 0x10000, 0x10001, 0x10003,
            0x7FFFE, 0xEFFFF, 0xFFFF0, 0xFFFF4, 0xFFFF8]
ADDRS_ANY = [0x01000, 0x7FFFE]
CF_OPS = set(range(0x01, 0x08)) | set(range(0x10, 0x20)) | {0xFE, 0xFF}
BYTE_PAL = [0x00, 0x01, 0x02, 0x7F, 0x80, 0xFE, 0xFF, 0x10, 0x34, 0xA5, 0xC0, 0xFD]
COND = {"Z": lambda c, z: z == 1, "NZ": lambda c, z: z == 0, "C": lambda c, z: c == 1, "NC": lambda c, z: c == 0}


def execute(data: bytes, addr: int, flags: int, regs_extra=None, steps: int = 1, mem_extra=None):
    regs = {"PC": addr, "BA": 0x1234, "I": 2, "X": 0x23456, "Y": 0x34567, "U": 0x45000, "S": 0x56000, "F": flags}
    if regs_extra:
        regs.update(regs_extra)
    mem = {((addr + i) & 0xFFFFF): b for i, b in enumerate(data)}
    mem[IMEM + 0xEC] = 0x10
    mem[IMEM + 0xED] = 0x23
    mem[IMEM + 0xEE] = 0x45
    if mem_extra:
        mem.update(mem_extra)
    return pycpu.run(regs, mem, fill=0x107, steps=steps), regs, mem


def judge(data: bytes, addr: int, vb: VB, full: bool, prior: Tuple[int, ...] = ()) -> int:
    """prior = the addresses at which these bytes were analysed and executed earlier in this process (kept in the
    witness: a violation may depend on that history, e.g. through a cache keyed without the address)."""
    n = 0
    try:
        info = drv.info_fp(data, addr)
    except Exception:  # noqa: BLE001
        return 0
    if info is None:
        return 0
    ins, _ = drv.py_decode(data, addr)
    name = ins.name()
    if name.startswith("PRE") or name.startswith("???"):
        return 0
    length, branches = info
    op = ins.opcode
    tag = f"{name}/op={op:02X}/{'pre' if getattr(ins, '_pre', None) is not None else 'none'}"
    wit = lambda: {"bytes": data.hex(), "addr": addr, "prior_addrs": list(prior)}  # noqa: E731
    bt = {t: tg for t, tg in branches}
    fall = (addr + length) & 0xFFFFF
    for flags in (0, 1, 2, 3):
        c, z = flags & 1, (flags >> 1) & 1
        out, regs, mem = execute(data[:length], addr, flags)
        n += 1
        if out["err"]:
            continue
        pc = out["regs"]["PC"]
        halted = out["power"] != "running"
        if not branches:
            if pc != fall and name != "IR":
                vb.add(f"C05/no-branch-reported-but-pc-leaves/{tag}",
                       f"{data[:length].hex()} '{drv.asm_str(ins.render())}' @ {addr:#x}: reports no branch, execution continues at "
                       f"{pc:#x} (fall-through {fall:#x})", wit)
            continue
        if "FunctionReturn" in bt or "UnresolvedBranch" in bt or "IndirectBranch" in bt:
            continue
        if "CallDestination" in bt:
            tgt = bt["CallDestination"] & 0xFFFFF
            if pc != tgt:
                vb.add(f"C05/call-destination/{tag}", f"{data[:length].hex()} '{drv.asm_str(ins.render())}' @ {addr:#x}: reported call "
                       f"destination {tgt:#x}, execution went to {pc:#x}", wit)
            continue
        if "UnconditionalBranch" in bt:
            tgt = bt["UnconditionalBranch"] & 0xFFFFF
            if pc != tgt:
                vb.add(f"C05/unconditional-target/{tag}", f"{data[:length].hex()} '{drv.asm_str(ins.render())}' @ {addr:#x}: reported "
                       f"target {tgt:#x}, execution went to {pc:#x}", wit)
            continue
        if "TrueBranch" in bt or "FalseBranch" in bt:
            cond = getattr(ins, "_cond", None)
            if cond not in COND or "TrueBranch" not in bt or "FalseBranch" not in bt:
                vb.add(f"C05/conditional-metadata-incomplete/{tag}", f"{data[:length].hex()} @ {addr:#x}: branches {branches} cond {cond}", wit)
                continue
            taken = COND[cond](c, z)
            want = (bt["TrueBranch"] if taken else bt["FalseBranch"]) & 0xFFFFF
            if pc != want:
                vb.add(f"C05/conditional-target/{'taken' if taken else 'not-taken'}/{tag}",
                       f"{data[:length].hex()} '{drv.asm_str(ins.render())}' @ {addr:#x} C={c} Z={z}: reported "
                       f"{'taken' if taken else 'fall-through'} target {want:#x}, execution went to {pc:#x}", wit)
        if not full:
            pass
    return n


def _shard_shapes(args):
    pairs, tail = args
    vb = VB()
    n = 0
    cases = 0
    for pre, op in pairs:
        addrs = ADDRS_CF if op in CF_OPS else ADDRS_ANY
        for d in shapes.shapes_for(pre, op, tail):
            for i, a in enumerate(addrs):
                n += judge(d, a, vb, True, tuple(addrs[:i]))
                cases += 1
    return {"n": n, "cases": cases, "vb": vb}


def _shard_targets(args):
    """Displacements (all 256) and 16/20-bit targets (palette per byte) for the control-flow opcodes."""
    ops, pres = args
    vb = VB()
    n = 0
    cases = 0
    for pre in pres:
        for op in ops:
            head = (bytes([pre]) if pre is not None else b"") + bytes([op])
            ins, _ = drv.py_decode(head + bytes(6), 0x1000)
            if ins is None:
                continue
            ln = ins.length() - len(head)
            if ln == 1:
                combos = [bytes([b]) for b in range(256)]
            elif ln == 2:
                combos = [bytes([a, b]) for a in BYTE_PAL for b in BYTE_PAL]
            elif ln == 3:
                combos = [bytes([a, b, c]) for a in BYTE_PAL[:8] for b in BYTE_PAL[:8] for c in (0x00, 0x01, 0x07, 0x0F, 0x0C, 0x10, 0xF3)]
            else:
                combos = [b""]
            for cb in combos:
                for i, a in enumerate(ADDRS_CF):
                    n += judge(head + cb + bytes(3), a, vb, True, tuple(ADDRS_CF[:i]))
                    cases += 1
    return {"n": n, "cases": cases, "vb": vb}


BODIES = {
    "empty": "",
    "pushs_pops": "4f5f",            # PUSHS F ; POPS F
    "pushu_popu": "2838",            # PUSHU A ; POPU A
    "nops": "0000",
    "flags": "9700",                 # SC ; NOP   (callee changes C: RET/RETF keep it, RETI restores the saved F)
    "set_bp": "32ccec40",            # MV (EC),0x40: the callee moves BP (returns must not address through it)
    "set_px_py": "32cced1132ccee22",  # MV (ED),0x11 ; MV (EE),0x22
    "set_imr": "32ccfb55",           # MV (FB),0x55: the callee rewrites the interrupt mask (RETI restores the saved byte, RET/RETF keep 0x55)
}


def _pairs(args):
    addrs, = args
    vb = VB()
    n = 0
    for addr in addrs:
        for kind in ("CALL", "CALLF", "IR", "PRE+CALL", "PRE+CALLF", "PRE+IR"):
            for bname, bhex in BODIES.items():
                body = bytes.fromhex(bhex)
                for flags in (0, 3):
                    for imr in (0x00, 0x8F):
                        page = addr & 0xF0000
                        callee = (page | 0x2345) if not kind.endswith("CALLF") else 0x32345
                        if kind.endswith("IR"):
                            callee = 0x32345
                        prefixed = kind.startswith("PRE+")     # a (redundant) PRE byte is fused into the call: one longer instruction
                        kind = kind[4:] if prefixed else kind
                        if kind == "CALL":
                            code = bytes([0x04, callee & 0xFF, (callee >> 8) & 0xFF])
                            ret = bytes([0x06])
                        elif kind == "CALLF":
                            code = bytes([0x05, callee & 0xFF, (callee >> 8) & 0xFF, (callee >> 16) & 0xFF])
                            ret = bytes([0x07])
                        else:
                            code = bytes([0xFE])
                            ret = bytes([0x01])
                        if prefixed:
                            code = bytes([0x32]) + code
                            kind = "PRE+" + kind
                        if (addr & 0xFFFF) + len(code) + 1 > 0xFFFF and kind.endswith("CALL"):
                            # a near call whose return address lies in the next page cannot return there by design
                            continue
                        mem_extra = {((callee + i) & 0xFFFFF): b for i, b in enumerate(body + ret)}
                        mem_extra[IMEM + 0xFB] = imr
                        if kind.endswith("IR"):
                            mem_extra[0xFFFFA] = callee & 0xFF
                            mem_extra[0xFFFFB] = (callee >> 8) & 0xFF
                            mem_extra[0xFFFFC] = (callee >> 16) & 0xFF
                        nbody = {"empty": 0, "nops": 2, "pushs_pops": 2, "pushu_popu": 2, "flags": 2, "set_bp": 1, "set_px_py": 2, "set_imr": 1}[bname]
                        out, regs, mem = execute(code, addr, flags, steps=2 + nbody, mem_extra=mem_extra)
                        n += 1
                        wit = {"pair": kind, "addr": addr, "body": bname, "flags": flags, "imr": imr}
                        if out["err"]:
                            vb.add(f"C05/pair/{kind}/error", f"{kind} @ {addr:#x} body {bname}: {out['err']}", wit)
                            continue
                        want_pc = (addr + len(code)) & 0xFFFFF
                        pc = out["regs"]["PC"]
                        if pc != want_pc:
                            vb.add(f"C05/pair/{kind}/resume-pc", f"{kind} @ {addr:#x} body {bname}: returned to {pc:#x}, expected {want_pc:#x}", wit)
                        if out["regs"]["S"] != regs["S"]:
                            vb.add(f"C05/pair/{kind}/stack-pointer", f"{kind} @ {addr:#x} body {bname}: S {regs['S']:#x} -> {out['regs']['S']:#x}", wit)
                        exp_f = flags if (kind.endswith("IR") or bname != "flags") else (flags | 1)
                        if (out["regs"]["F"] & 3) != (exp_f & 3):
                            vb.add(f"C05/pair/{kind}/flags", f"{kind} @ {addr:#x} body {bname}: F {flags:#x} -> {out['regs']['F']:#x} expected {exp_f:#x}", wit)
                        exp_imr = imr if (kind.endswith("IR") or bname != "set_imr") else 0x55
                        if out["regs"]["IMR"] != exp_imr:
                            vb.add(f"C05/pair/{kind}/interrupt-mask", f"{kind} @ {addr:#x} body {bname}: IMR {imr:#x} -> {out['regs']['IMR']:#x} expected {exp_imr:#x}", wit)
    return {"n": n, "cases": n, "vb": vb}


def run(ctx) -> None:
    pres = list(drv.PRE_CHOICES) if ctx.thorough else [None, 0x32, 0x25, 0x37, drv.PRE_BYTES[ctx.seed % 15]]
    pairs = [(p, op) for p in pres for op in range(256) if not (p is None and op in drv.PRE_BYTES)]
    tail = bytes.fromhex("3404050607")
    res = pmap(_shard_shapes, [(s, tail) for s in chunks(pairs, nproc() * 4)])
    cf = sorted(CF_OPS)
    tres = pmap(_shard_targets, [(s, pres if ctx.thorough else [None]) for s in chunks(cf, nproc())])
    pres_ = pmap(_pairs, [(s,) for s in chunks(ADDRS_CF + [0x2FFFB, 0xB0000], 8)])
    for r in res + tres + pres_:
        ctx.merge_bucket(r["vb"])
    n = sum(r["n"] for r in res + tres + pres_)
    ctx.level = "exploration"
    ctx.coverage.update({
        "evaluations": n,
        "distinct_nontrivial": sum(r["cases"] for r in res + tres + pres_),
        "shape_cases": sum(r["cases"] for r in res),
        "target_cases": sum(r["cases"] for r in tres),
        "pair_cases": sum(r["cases"] for r in pres_),
        "exhaustive": True,
        "rule": (f"every structural shape for prefix set {sorted(str(p) for p in pres)} at {len(ADDRS_ANY)} addresses "
                 f"({len(ADDRS_CF)} boundary addresses for control-flow opcodes) x the 4 C/Z values; control-flow opcodes additionally with "
                 "all 256 displacement bytes / a 12-value palette per target byte; metadata from get_instruction_info compared with "
                 "the PC reached by Emulator.execute_instruction; pairs: CALL..RET, CALLF..RETF, IR..RETI x 8 callee bodies (incl. ones that move BP/PX/PY or rewrite IMR) x "
                 f"{len(ADDRS_CF) + 2} addresses x flags x IMR. distinct_nontrivial = distinct (encoding, address) cases."),
        "samples": [{"bytes": "1a05", "addr": "0xfffe", "flags": [0, 1, 2, 3]}, {"pair": "CALLF", "addr": "0xfffc", "body": "pushs_pops"}],
    })
    ctx.assumptions += ["IR reports no branch and is judged only through the IR..RETI pair law (statement: counts as a call that returns)",
                        "FunctionReturn / UnresolvedBranch carry no target and constrain nothing"]


def replay(ctx, w) -> Optional[str]:
    vb = VB()
    if "pair" in w:
        r = _pairs(([w["addr"]],))
        vb = r["vb"]
    else:
        for pa in w.get("prior_addrs", []):          # rebuild the history the violation was seen under
            judge(bytes.fromhex(w["bytes"]), pa, VB(), True)
        judge(bytes.fromhex(w["bytes"]), w["addr"], vb, True)
    for sig, (cnt, wl) in vb.d.items():
        return wl[0][0]
    return None
