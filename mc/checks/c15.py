"""C15 — LCD controllers follow the HD61202 protocol and map VRAM to pixels one-to-one.

  P  protocol: BFS over (address, value) writes and address reads in both LCD windows (all 16 low-nibble
     decodings, window start and end), every history replayed on the real Python HD61202Controller and
     the real Rust LcdController and compared with the reference on every state field and every read value
  W  scripted long runs forcing column wrap (70 data writes / reads from every start column in {0,62,63})
  M  pixel map, complete: flip each of the 2 x 8 x 64 x 8 VRAM bits, diff the 240x32 display buffer
"""
from __future__ import annotations

from typing import Any, Dict, List, Optional, Tuple

from ..core import VB, nproc
from ..par import pmap, chunks
from ..spec.hd61202 import RefLCD
from .. import rustbridge as rb

from pce500.display.controller_wrapper import HD61202Controller

WRITE_VALUES = [0x3E, 0x3F, 0x40, 0x41, 0x7E, 0x7F, 0xB8, 0xBB, 0xBC, 0xBF, 0xC0, 0xC1, 0xFF, 0x00, 0xA5]


def addresses(full: bool) -> List[int]:
    a = [0x2000 + i for i in range(16)] + [0xA000 + i for i in range(16)]
    if full:
        a += [0x2FF0 + i for i in range(16)] + [0xAFF0 + i for i in range(16)] + [0x1FFF, 0x3000, 0x9FFF, 0xB000]
    return a


def run_py(hist) -> Tuple[List[Any], Any]:
    lcd = HD61202Controller()
    outs = []
    for ev in hist:
        if ev[0] == "w":
            lcd.write(ev[1], ev[2])
            outs.append(None)
        elif ev[0] == "x":
            lcd.reset()
            outs.append(None)
        elif ev[0] == "s":
            # what PCE500Emulator._capture_lcd_snapshot/_restore_lcd_snapshot do, into a fresh controller
            sn = lcd.get_snapshot()
            meta = {"chip_count": len(sn.chips), "pages": len(sn.chips[0].vram), "width": len(sn.chips[0].vram[0]),
                    "chips": [{"on": c.on, "start_line": c.start_line, "page": c.page, "y_address": c.y_address,
                               "instruction_count": c.instruction_count, "data_write_count": c.data_write_count} for c in sn.chips]}
            payload = bytes(int(v) & 0xFF for c in sn.chips for pg in c.vram for v in pg)
            lcd = HD61202Controller()
            lcd.load_snapshot(meta, payload)
            outs.append(None)
        else:
            outs.append(lcd.read(ev[1]))
    snap = lcd.get_snapshot()
    st = tuple((c.on, c.start_line, c.page, c.y_address, c.vram) for c in snap.chips)
    return outs, st


def rs_req(hist):
    ops = []
    for ev in hist:
        ops.append({"w": [ev[1], ev[2]]} if ev[0] == "w" else {"snap": 1} if ev[0] == "s" else {"reset": 1} if ev[0] == "x" else {"r": ev[1]})
    ops.append({"obs": False})
    return {"cmd": "lcd", "script": ops}


def rs_unpack(resp, hist):
    outs = []
    for ev, o in zip(hist, resp["out"]):
        outs.append(None if ev[0] in ("w", "s", "x") else o["v"])
    obs = resp["out"][-1]
    vram = bytes.fromhex(obs["vram"])
    st = []
    for i, cm in enumerate(obs["meta"]["chips"]):
        v = tuple(tuple(vram[i * 512 + p * 64: i * 512 + p * 64 + 64]) for p in range(8))
        st.append((cm["on"], cm["start_line"], cm["page"], cm["y_address"], v))
    return outs, tuple(st)


def run_ref(hist):
    r = RefLCD()
    outs = []
    for ev in hist:
        if ev[0] == "w":
            r.write(ev[1], ev[2])
            outs.append(None)
        elif ev[0] == "x":
            r.reset()
            outs.append(None)
        elif ev[0] == "s":
            outs.append(None)          # save -> fresh controller -> load is the identity
        else:
            outs.append(r.read(ev[1]))
    return outs, r.state()


def describe(ev) -> str:
    return f"W[{ev[1]:#06x}]={ev[2]:#04x}" if ev[0] == "w" else "SNAPSHOT" if ev[0] == "s" else "RESET" if ev[0] == "x" else f"R[{ev[1]:#06x}]"


def judge(hist, py, rs, vb: VB) -> Tuple:
    ref_out, ref_st = run_ref(hist)
    wit = lambda: {"history": [list(e) for e in hist]}  # noqa: E731
    last = hist[-1] if hist else ("-", 0, 0)
    lo = last[1] & 0xF
    kind = "after-write-to-read-decoding" if any(e[0] == "w" and e[1] & 1 for e in hist[:-1]) else ("write" if last[0] == "w" else "read") + ("-to-read-decoding" if (last[0] == "w" and lo & 1) else
                                                      "-of-write-decoding" if (last[0] == "r" and not lo & 1) else "")
    for impl, (outs, st) in (("python", py), ("rust", rs)):
        if outs is None:
            continue
        for i, (a, b) in enumerate(zip(outs, ref_out)):
            if a != b:
                isdata = (hist[i][1] >> 1) & 1
                vb.add(f"C15/{impl}/read-value/{'data' if isdata else 'status'}" + ("" if isdata or a is None or b is None else f"/bits={(a ^ b) & 0xFF:02x}") +
                       ("/after-snapshot" if any(e[0] == "s" for e in hist[:i]) else ""),
                       f"{impl}: {describe(hist[i])} returned {a} expected {b} in {[describe(e) for e in hist[:i + 1]]}", wit)
                break
        names = ("on", "start_line", "page", "column", "vram")
        for ci, (cs, cr) in enumerate(zip(st, ref_st)):
            for n, x, y in zip(names, cs, cr):
                if x != y:
                    xs = "(vram differs)" if n == "vram" else f"{x} expected {y}"
                    vb.add(f"C15/{impl}/state/{n}/{kind}",
                           f"{impl}: chip {ci} {n} {xs} after {[describe(e) for e in hist]}", wit)
    return tuple((on, sl, pg, y, tuple((p, c, v) for p, row in enumerate(vr) for c, v in enumerate(row) if v))
                 for (on, sl, pg, y, vr) in ref_st) + (tuple(c.busy for c in _ref_busy(hist)),)


def _ref_busy(hist):
    r = RefLCD()
    for ev in hist:
        if ev[0] == "w":
            r.write(ev[1], ev[2])
        elif ev[0] == "x":
            r.reset()
        elif ev[0] == "r":
            r.read(ev[1])
    return r.chips


def _bfs(args):
    first_events, events, depth = args
    h = rb.harness()
    vb = VB()
    seen = set()
    trans = 0
    frontier = []
    for e in first_events:
        frontier.append((e,))
    d = 1
    maxd = 1
    cur = frontier
    last = ()
    while cur and d <= depth:
        nxt = []
        for i in range(0, len(cur), 500):
            part = cur[i:i + 500]
            outs = h.batch([rs_req(x) for x in part])
            for hist, resp in zip(part, outs):
                k = judge(hist, run_py(hist), rs_unpack(resp, hist), vb)
                trans += 1
                snapped = any(e[0] == "s" for e in hist)
                if (k, snapped) not in seen:           # a history with a snapshot in it is explored further on its own
                    seen.add((k, snapped))
                    last = hist
                    if d < depth:
                        nxt.extend(hist + (e,) for e in events if not (snapped and e[0] == "s"))
        maxd = d
        cur = nxt
        d += 1
    return {"states": len(seen), "transitions": trans, "depth": maxd, "vb": vb, "sample": [list(e) for e in last]}


def _snap_scripts(args):
    """Column-wrap scripts with a snapshot (save -> fresh controller -> load) inserted after each single position."""
    runs = args
    h = rb.harness()
    vb = VB()
    n = 0
    for r in runs:
        variants = [r[:i] + (("s", 0, 0),) + r[i:] for i in range(1, len(r), 1)]
        outs = h.batch([rs_req(v) for v in variants])
        for v, resp in zip(variants, outs):
            judge(v, run_py(v), rs_unpack(resp, v), vb)
            n += 1
    return {"n": n, "vb": vb}


def _wrap_runs():
    runs = []
    for base, name in ((0x2000, "lo"), (0xA000, "hi")):
        for cs_off in (0x8, 0x4, 0x0):           # left, right, both
            for col in (0, 62, 63):
                w = [("w", base + cs_off, 0x3F), ("w", base + cs_off, 0xB8 | 3), ("w", base + cs_off, 0x40 | col)]
                w += [("w", base + cs_off + 2, (i * 7 + 1) & 0xFF) for i in range(70)]
                runs.append(tuple(w))
                if cs_off != 0:
                    r = list(w) + [("w", base + cs_off, 0x40 | col)] + [("r", base + cs_off + 3, 0) for _ in range(70)]
                    r += [("r", base + cs_off + 1, 0), ("r", base + cs_off + 1, 0)]
                    runs.append(tuple(r))
    return runs


def _shard_wrap(runs):
    h = rb.harness()
    vb = VB()
    n = 0
    for hist in runs:
        judge(hist, run_py(hist), rs_unpack(h.call(rs_req(hist)), hist), vb)
        n += len(hist)
    return {"n": n, "vb": vb}


# ---- pixel map -----------------------------------------------------------------------------

def _py_display(vram_bytes: bytes, sl: int = 0, on=(True, True), scratch: int = 0) -> List[str]:
    """Renders one controller state.  What numpy.empty / empty_like hand out is an environment answer (they promise nothing about
    content): it is fixed to `scratch`-filled memory here so that every rendering is reproducible; _display_purity varies it."""
    import numpy as _np
    lcd = HD61202Controller()
    sl0, sl1 = sl if isinstance(sl, (tuple, list)) else (sl, sl)
    meta = {"chips": [{"on": bool(on[0]), "start_line": sl0}, {"on": bool(on[1]), "start_line": sl1}], "pages": 8, "width": 64}
    lcd.load_snapshot(meta, vram_bytes)
    orig_empty, orig_like = _np.empty, _np.empty_like
    _np.empty = lambda shape, dtype=float, *a, **k: _np.full(shape, scratch, dtype=dtype)
    _np.empty_like = lambda arr, *a, **k: _np.full_like(arr, scratch)
    try:
        buf = lcd.get_display_buffer()
    finally:
        _np.empty, _np.empty_like = orig_empty, orig_like
    return ["".join("1" if v else "0" for v in row) for row in buf]


def _rs_display_req(vram_bytes: bytes, sl: int = 0, on=(True, True)):
    # 0x2008 selects the left chip (index 0), 0x2004 the right one; 0x3F / 0x3E = display on / off
    sl0, sl1 = sl if isinstance(sl, (tuple, list)) else (sl, sl)
    return {"cmd": "lcd", "script": [{"w": [0x2008, 0x3F if on[0] else 0x3E]}, {"w": [0x2004, 0x3F if on[1] else 0x3E]},
                                     {"w": [0x2008, 0xC0 | (sl0 & 0x3F)]}, {"w": [0x2004, 0xC0 | (sl1 & 0x3F)]},
                                     {"setvram": vram_bytes.hex()}, {"obs": True}]}


def _pixelmap(args):
    impl, chip, pages = args[:3]
    sl = args[3] if len(args) > 3 else 0          # display start line the map is taken under
    on = tuple(args[4]) if len(args) > 4 else (True, True)
    sfx = (f"/start-line-{sl}" if sl else "") + ("" if on == (True, True) else f"/on={int(on[0])}{int(on[1])}")
    vb = VB()
    h = rb.harness() if impl == "rust" else None
    base_v = bytes(1024)
    sl_chip = sl
    if sl:
        # each chip has its own start line register: the other chip is given a different one, which must not matter
        sl = [(sl + 17) % 64, (sl + 17) % 64]
        sl[chip] = sl_chip
        sl = tuple(sl)
    if impl == "rust":
        base = h.call(_rs_display_req(base_v, sl, on))["out"][-1]["display"]
    else:
        base = _py_display(base_v, sl, on)
    owner: Dict[Tuple[int, int], Tuple[int, int, int, int]] = {}
    n = 0
    multi = 0
    for page in pages:
        reqs = []
        keys = []
        for col in range(64):
            for bit in range(8):
                v = bytearray(1024)
                v[chip * 512 + page * 64 + col] = 1 << bit
                keys.append((chip, page, col, bit))
                reqs.append(bytes(v))
        if impl == "rust":
            outs = [o["out"][-1]["display"] for o in h.batch([_rs_display_req(v, sl, on) for v in reqs])]
        else:
            outs = [_py_display(v, sl, on) for v in reqs]
        for key, disp in zip(keys, outs):
            n += 1
            changed = [(r, c) for r in range(32) for c in range(240) if disp[r][c] != base[r][c]]
            if len(changed) > 1:
                multi += 1
                vb.add(f"C15/{impl}/pixelmap/bit-drives-several-pixels{sfx}", f"{impl}: VRAM bit chip{key[0]} page{key[1]} col{key[2]} "
                       f"bit{key[3]} changes {len(changed)} pixels {changed[:4]} (start line {sl})", {"pixelmap": impl, "key": list(key), "sl": sl_chip})
            for px in changed:
                if px in owner:
                    vb.add(f"C15/{impl}/pixelmap/pixel-driven-by-two-bits{sfx}", f"{impl}: pixel {px} driven by {owner[px]} and {key} (start line {sl})",
                           {"pixelmap": impl, "key": list(key), "sl": sl_chip, "chipwide": True})
                owner[px] = key
    return {"impl": impl, "n": n, "sl": sl_chip, "chip": chip, "owner": {f"{r},{c}": list(k) for (r, c), k in owner.items()}, "vb": vb}


def _single_write_check(impl) -> VB:
    """A single data write changes at most the eight pixels of one display column."""
    vb = VB()
    h = rb.harness() if impl == "rust" else None
    for cs_off, chipname in ((0x8, "left"), (0x4, "right")):
        for page in range(8):
            for col in (0, 1, 31, 55, 56, 63):
                setup = [("w", 0x2000, 0x3F), ("w", 0x2000 + cs_off, 0xB8 | page), ("w", 0x2000 + cs_off, 0x40 | col)]
                write = setup + [("w", 0x2000 + cs_off + 2, 0xFF)]
                if impl == "rust":
                    a = h.call({"cmd": "lcd", "script": [{"w": [e[1], e[2]]} for e in setup] + [{"obs": True}]})["out"][-1]["display"]
                    b = h.call({"cmd": "lcd", "script": [{"w": [e[1], e[2]]} for e in write] + [{"obs": True}]})["out"][-1]["display"]
                else:
                    def disp(evs):
                        lcd = HD61202Controller()
                        for e in evs:
                            lcd.write(e[1], e[2])
                        return ["".join("1" if v else "0" for v in row) for row in lcd.get_display_buffer()]
                    a, b = disp(setup), disp(write)
                changed = [(r, c) for r in range(32) for c in range(240) if a[r][c] != b[r][c]]
                cols = {c for _, c in changed}
                if len(changed) > 8 or len(cols) > 1:
                    vb.add(f"C15/{impl}/single-write-changes-too-much", f"{impl}: one data write ({chipname} page {page} col {col}) "
                           f"changed {len(changed)} pixels in display columns {sorted(cols)[:5]}",
                           {"single": impl, "cs_off": cs_off, "page": page, "col": col})
    return vb


def _display_purity() -> VB:
    """The picture is a function of (display switches, start line, VRAM): the same controller state rendered with all-zero, all-ones
    and 0xA5 scratch memory (see _py_display), after a fully lit and after a dark picture, must give the same pixels."""
    vb = VB()
    lit, dark = bytes([0xFF]) * 1024, bytes(1024)
    pat = bytes(((i * 37) ^ (i >> 3)) & 0xFF for i in range(1024))
    for on in ((False, False), (True, False), (False, True), (True, True)):
        for sl in (0, 9):
            pics = []
            for fillv, prior in ((0x00, lit), (0x00, dark), (0xFF, lit), (0xFF, dark), (0xA5, lit)):
                _py_display(prior, 0, (True, True), fillv)
                pics.append(_py_display(pat, sl, on, fillv))
            if any(p != pics[0] for p in pics[1:]):
                k = next(i for i, p in enumerate(pics) if p != pics[0])
                diff = sum(1 for r in range(32) for c in range(240) if pics[0][r][c] != pics[k][r][c])
                vb.add(f"C15/python/display-depends-on-scratch-memory-or-earlier-picture/on={int(on[0])}{int(on[1])}", f"python: display switches {on}, "
                       f"start line {sl}: {diff} pixels differ between two renderings of the same controller state (rendering #{k} vs #0: "
                       f"scratch memory content / previously rendered picture differ)", {"purity": True, "on": list(on), "sl": sl})
    return vb


# ---- window mirrors: address bits 4..11 are not decoded ----------------------------------------------------------------
MIRROR_SCRIPT = [("w", 0x0, 0x3F), ("w", 0x8, 0xB9), ("w", 0x4, 0x45), ("w", 0x2, 0xA5), ("r", 0x1, 0), ("r", 0x3, 0), ("r", 0x3, 0),
                 ("w", 0xA, 0x5A), ("w", 0x8, 0x41), ("r", 0xB, 0), ("r", 0xB, 0), ("r", 0x7, 0), ("w", 0x0, 0xC5), ("r", 0x9, 0), ("r", 0x5, 0)]


def _mirrors(args):
    """The same command/read script through every mirror of a window (all 256 values of address bits 4..11) is judged by the
    reference model, which decodes the low nibble only - as the statement's "all 16 low-nibble decodings" of the windows says."""
    uppers, = args
    h = rb.harness()
    vb = VB()
    n = 0
    for base in (0x2000, 0xA000):
        hists = [tuple((k, base | (up << 4) | lo, v) for k, lo, v in MIRROR_SCRIPT) for up in uppers]
        outs = h.batch([rs_req(hh) for hh in hists])
        for hh, o in zip(hists, outs):
            judge(hh, run_py(hh), rs_unpack(o, hh), vb)
            n += 1
    return {"n": n, "vb": vb}


def run(ctx) -> None:
    rb.build()
    addrs = addresses(ctx.thorough)
    events = [("w", a, v) for a in addrs for v in WRITE_VALUES] + [("r", a, 0) for a in addrs] + [("x", 0, 0)]
    if ctx.seed:
        events += [("w", a, (ctx.seed * 37 + 11) & 0xFF) for a in addrs[:32]]
    depth = 3 if ctx.thorough else 2
    reduced = [("w", a, v) for a in (0x2000, 0x2002, 0x2004, 0x2006, 0x2008, 0x200A, 0xA00A, 0x2003) for v in (0x3F, 0x41, 0xB9, 0xC1, 0xA5)] + \
              [("r", a, 0) for a in (0x2005, 0x2007, 0x2009, 0x200B, 0xA00B, 0x2001, 0x2003)] + [("x", 0, 0)]
    second = events if ctx.thorough else [e for e in events if e[0] in ("r", "x") or e[2] in (0x3F, 0x41, 0xBB, 0xC1, 0xA5)]
    jobs = [(s, second, depth) for s in chunks(events, nproc() * 2)]
    jobs += [(s, reduced, 4 if ctx.thorough else 3) for s in chunks(reduced, nproc())]
    res = pmap(_bfs, jobs)
    wres = pmap(_shard_wrap, chunks(_wrap_runs(), nproc()))
    ctx.merge_bucket(_display_purity())
    mres = pmap(_mirrors, [(c,) for c in chunks(list(range(256)), nproc())])
    for r in mres:
        ctx.merge_bucket(r["vb"])
    ctx.coverage["window_mirror_scripts"] = sum(r["n"] for r in mres)
    pm = pmap(_pixelmap, [(impl, chip, [p]) for impl in ("python", "rust") for chip in (0, 1) for p in range(8)])
    # the map must stay one-to-one under every display start line (scrolling only permutes rows)
    sls = (1, 9, 36) if not ctx.thorough else (1, 7, 8, 9, 31, 32, 36, 63)
    pmsl = pmap(_pixelmap, [(impl, chip, list(range(8)), sl) for impl in ("python", "rust") for chip in (0, 1) for sl in sls])
    for r in pmsl:
        full = sum(len(x["owner"]) for x in pm if x["impl"] == r["impl"] and [k for k in x["owner"].values()][:1] and list(x["owner"].values())[0][0] == r["chip"])
        if len(r["owner"]) != full:
            ctx.violation(f"C15/{r['impl']}/pixelmap/pixels-lost-under-start-line", f"{r['impl']}: chip {r['chip']} drives {full} pixels with start line 0 "
                          f"but {len(r['owner'])} with start line {r['sl']}", {"pixelmap": r["impl"], "key": [r["chip"], 0, 0, 0], "sl": r["sl"], "count": True})
    # the start line is the VRAM line shown at the top of the chip (HD61202): under start line s every pixel is driven by the
    # bit s lines further down (mod 64) in the same column than under start line 0 -- or by the same bit, for a view that does
    # not model scrolling at all; anything else is not a scroll
    for r in pmsl:
        base0 = {}
        for x in pm:
            if x["impl"] == r["impl"]:
                base0.update({k: v for k, v in x["owner"].items() if v[0] == r["chip"]})
        def rot(v, s_):
            line = (v[1] * 8 + v[3] + s_) % 64
            return [v[0], line // 8, v[2], line % 8]
        same = all(r["owner"].get(k) == v for k, v in base0.items())
        scrolled = all(r["owner"].get(k) == rot(v, r["sl"]) for k, v in base0.items())
        if not (same or scrolled):
            bad = next(k for k, v in base0.items() if r["owner"].get(k) not in (v, rot(v, r["sl"])))
            ctx.violation(f"C15/{r['impl']}/pixelmap/start-line-is-not-a-scroll", f"{r['impl']}: chip {r['chip']} start line {r['sl']}: pixel {bad} is driven by "
                          f"{r['owner'].get(bad)}; with start line 0 it is {base0[bad]}, scrolled by {r['sl']} lines it would be {rot(base0[bad], r['sl'])}",
                          {"pixelmap": r["impl"], "key": [r["chip"], 0, 0, 0], "sl": r["sl"], "scroll": True})
    # a chip's pixels do not depend on whether the OTHER chip is switched on: with only chip A on, A's bits drive the same
    # pixels as with both on (the display-off state of A itself may blank its region or be ignored by the view)
    pmon = pmap(_pixelmap, [(impl, chip, list(range(8)), 0, (chip == 0, chip == 1)) for impl in ("python", "rust") for chip in (0, 1)])
    for r in pmon:
        base0 = {}
        for x in pm:
            if x["impl"] == r["impl"]:
                base0.update({k: v for k, v in x["owner"].items() if v[0] == r["chip"]})
        if r["owner"] != base0:
            bad = next(k for k in set(base0) | set(r["owner"]) if base0.get(k) != r["owner"].get(k))
            ctx.violation(f"C15/{r['impl']}/pixelmap/depends-on-the-other-chips-display-switch", f"{r['impl']}: with only chip {r['chip']} switched on, pixel {bad} "
                          f"is driven by {r['owner'].get(bad)}; with both chips on by {base0.get(bad)}",
                          {"pixelmap": r["impl"], "key": [r["chip"], 0, 0, 0], "onswitch": True})
        ctx.merge_bucket(r["vb"])
    ctx.coverage["pixelmap_start_lines"] = list(sls)
    for r in res + wres + pm + pmsl:
        ctx.merge_bucket(r["vb"])
    for impl in ("python", "rust"):
        ctx.merge_bucket(_single_write_check(impl))
        owners: Dict[str, Any] = {}
        for r in pm:
            if r["impl"] == impl:
                owners.update(r["owner"])
        missing = [(r, c) for r in range(32) for c in range(240) if f"{r},{c}" not in owners]
        if missing:
            ctx.violation(f"C15/{impl}/pixelmap/pixels-without-a-vram-bit", f"{impl}: {len(missing)} visible pixels are not driven by any VRAM bit, e.g. {missing[:5]}",
                          {"pixelmap": impl, "key": [0, 0, 0, 0], "whole": True})
        ctx.coverage[f"pixels_mapped_{impl}"] = len(owners)
    # the two implementations must also agree on the map itself
    mp = {k: v for r in pm if r["impl"] == "python" for k, v in r["owner"].items()}
    mr = {k: v for r in pm if r["impl"] == "rust" for k, v in r["owner"].items()}
    diff = [k for k in mp if mr.get(k) != mp[k]]
    if diff:
        ctx.violation("C15/pixelmap/python-vs-rust", f"{len(diff)} pixels are driven by different VRAM bits in the two models, e.g. "
                      f"pixel {diff[0]}: python {mp[diff[0]]} rust {mr.get(diff[0])}", {"pixelmap": "both", "key": mp[diff[0]]})
    ctx.level = "model_checking"
    ctx.coverage.update({
        "states": sum(r["states"] for r in res),
        "transitions": sum(r["transitions"] for r in res) + sum(r["n"] for r in wres),
        "traces_validated_against_impl": sum(r["transitions"] for r in res) + len(_wrap_runs()),
        "vram_bits_flipped": sum(r["n"] for r in pm),
        "alphabet": len(events),
        "depth": depth,
        "exhaustive": True,
        "rule": (f"BFS depth {depth} over {len(events)} events (writes: {len(addrs)} addresses x {len(WRITE_VALUES)} values; reads at every "
                 "address) with dedup on the reference state (per chip on/start line/page/column/non-zero VRAM, busy), plus depth "
                 f"{4 if ctx.thorough else 3} over a reduced alphabet; each history replayed on HD61202Controller and LcdController and "
                 "compared field by field with the reference; column-wrap scripts; pixel map: all 8192 VRAM bits flipped one at a time "
                 "in both models, every visible pixel must have exactly one owner and every bit at most one pixel"),
        "samples": [{"history": r["sample"]} for r in res[:2]] + [{"wrap": [list(e) for e in _wrap_runs()[1][:6]]}],
    })
    ctx.assumptions += ["only the documented windows 0x2000-0x2FFF / 0xA000-0xAFFF are LCD accesses",
                        "the busy flag is compared through status reads (the Rust snapshot does not export it)"]


def replay(ctx, w) -> Optional[str]:
    rb.build()
    vb = VB()
    if "history" in w:
        hist = tuple(tuple(e) for e in w["history"])
        judge(hist, run_py(hist), rs_unpack(rb.harness().call(rs_req(hist)), hist), vb)
    elif w.get("purity"):
        vb = _display_purity()
    elif "pixelmap" in w and w.get("onswitch"):
        impl, chip = w["pixelmap"], w["key"][0]
        o0 = _pixelmap((impl, chip, list(range(8)), 0))["owner"]
        o1 = _pixelmap((impl, chip, list(range(8)), 0, (chip == 0, chip == 1)))["owner"]
        return None if o0 == o1 else f"{impl}: chip {chip}'s pixel map changes when the other chip is switched off"
    elif "pixelmap" in w and (w.get("scroll") or w.get("count")):
        impl, chip, sl = w["pixelmap"], w["key"][0], w["sl"]
        o0 = _pixelmap((impl, chip, list(range(8)), 0))["owner"]
        o1 = _pixelmap((impl, chip, list(range(8)), sl))["owner"]
        def rot(v, s_):
            line = (v[1] * 8 + v[3] + s_) % 64
            return [v[0], line // 8, v[2], line % 8]
        if w.get("count"):
            return None if len(o0) == len(o1) else f"{impl}: chip {chip} drives {len(o0)} pixels at start line 0, {len(o1)} at {sl}"
        same = all(o1.get(k) == v for k, v in o0.items())
        scrolled = all(o1.get(k) == rot(v, sl) for k, v in o0.items())
        return None if (same or scrolled) else f"{impl}: chip {chip}: start line {sl} is neither ignored nor a scroll by {sl} lines"
    elif "pixelmap" in w:
        impls = ("python", "rust") if w["pixelmap"] == "both" else (w["pixelmap"],)
        owners = {}
        for impl in impls:
            pages = range(8) if w.get("whole") else [w["key"][1]]
            chips = (0, 1) if w.get("whole") else (w["key"][0],)
            owners[impl] = {}
            for chip in chips:
                r = _pixelmap((impl, chip, list(range(8)) if (w.get("chipwide") or w.get("count")) else list(pages), w.get("sl", 0)))
                vb.d.update(r["vb"].d)
                owners[impl].update(r["owner"])
            if w.get("whole"):
                missing = [(r_, c) for r_ in range(32) for c in range(240) if f"{r_},{c}" not in owners[impl]]
                if missing:
                    return f"{impl}: {len(missing)} visible pixels are not driven by any VRAM bit"
        if w["pixelmap"] == "both":
            diff = [k for k in owners["python"] if owners["rust"].get(k) != owners["python"][k]]
            if diff:
                return f"pixel {diff[0]}: python {owners['python'][diff[0]]} rust {owners['rust'].get(diff[0])}"
    elif "single" in w:
        vb = _single_write_check(w["single"])
    for sig, (cnt, wl) in vb.d.items():
        return wl[0][0]
    return None
