"""C07, machine level: interrupt/call bookkeeping must not influence architectural results.

A family of firmware runs that differ only in HOW earlier software-interrupt handlers were left -- through RETI or by
popping the five frame bytes by hand (POPS F ; POPS F ; RETF) -- is brought to one common architectural state (same
registers, flags, internal memory, stack bytes, same number of instructions and cycles; no timer running), and then
continued with the same events (steps, ON key).  Every exit-path combination of k handlers (2^k runs, k = 1..3) is
enumerated; from the common point on, all runs must be observably identical on each machine.  The exit path of handler
number j is selected by bit j of the accumulator, which the handler shifts out; the main program overwrites A, F and IMR
before the common point.  The last handler before the continuation optionally returns through RETI in every run
("closed" variants), so both kinds of end state are covered.
"""
from __future__ import annotations

import itertools
from typing import Any, Dict, List, Optional, Tuple

from .. import machine as M
from .. import rustbridge as rb
from ..core import VB

# handler: SHR A ; JRNC alt ; NOP ; NOP ; RETI ; alt: POPS F ; POPS F ; RETF      (five instructions on either path)
HANDLER = bytes.fromhex("f4" "1e03" "00" "00" "01" "5f" "5f" "07")
TAILS = {
    "steps": [("step",)] * 6,
    "on_key": [("press_on",)] + [("step",)] * 6,
    "key": [("press", "KEY_Q")] + [("step",)] * 8,
    "timer": None,      # the main timer runs with period 40: its first boundary lies after the common point in every run
}
TIMER_PERIOD = 40


def program(k: int, closed: bool, imr: int) -> Tuple[bytes, int]:
    """main program and the number of steps up to the common point"""
    # k software interrupts ; MV A,0 ; ADD A,1 (A = 1, C = Z = 0) ; MV (FB),imr ; PUSHS F x5 ; POPS F x5 (the dead frame bytes
    # below S are overwritten with the same five bytes in every run)
    code = bytes([0xFE] * k) + bytes.fromhex("0800" "4001") + bytes([0xCC, 0xFB, imr]) + bytes([0x4F] * 5) + bytes([0x5F] * 5)
    steps = k * 6 + 13
    if closed:
        code += bytes([0xFE])          # A = 1 -> carry out -> RETI path in every run
        steps += 6
    code += bytes.fromhex("00" * 12) + bytes([0x13, 14])      # NOP sled ; JR back into it
    return code, steps


def cases(thorough: bool):
    for k in (1, 2, 3) if thorough else (1, 2):
        for closed in (True, False):
            for imr in (0x8F, 0x0F):
                for tail in TAILS:
                    yield (k, closed, imr, tail)


def _observe(o) -> Tuple:
    return (tuple(sorted(o["regs"].items())), o["imem"], tuple(o["mem"]), o["power"])


def run_case(impl: str, h, case, vb: VB) -> int:
    k, closed, imr, tail = case
    code, nsync = program(k, closed, imr)
    assert nsync < TIMER_PERIOD - 1
    hist = [("step",)] * nsync + (TAILS[tail] if tail != "timer" else [("step",)] * (TIMER_PERIOD + 8 - nsync))
    runs = {}
    for sel in range(1 << k):
        cfg = M.default_cfg(code, HANDLER, imr=imr, timer=(False, 0, 0) if tail != "timer" else (True, TIMER_PERIOD, 0), regs={"BA": sel},
                            kb_press=1, kol=0xFF)
        seq = M.run_py(cfg, hist) if impl == "python" else M.run_rs(h, cfg, hist)
        runs[sel] = seq
    ref_sel = (1 << k) - 1                      # every handler left through RETI
    ref = runs[ref_sel]
    n = 0
    for sel, seq in runs.items():
        n += 1
        if sel == ref_sel:
            continue
        wit = {"book": True, "impl": impl, "case": [k, closed, imr, tail], "sel": sel}
        if any("err" in o for o in seq) or len(seq) != len(ref):
            vb.add(f"C07/{impl}/bookkeeping/run-error/{tail}", f"{impl} k={k} sel={sel:0{k}b}: {[o.get('err') for o in seq if 'err' in o][:1]}", wit)
            continue
        if _observe(seq[nsync - 1]) != _observe(ref[nsync - 1]) or seq[nsync - 1]["cycles"] != ref[nsync - 1]["cycles"]:
            # the construction failed to bring the runs to one state: not judged (reported so that it is never silent)
            vb.add(f"C07/{impl}/bookkeeping/not-synchronised/{'closed' if closed else 'open'}", f"{impl} k={k} sel={sel:0{k}b} imr={imr:#x}: the runs differ "
                   f"architecturally at the common point already", wit)
            continue
        for i in range(nsync, len(seq)):
            if _observe(seq[i]) != _observe(ref[i]):
                a, b = seq[i], ref[i]
                diff = [n_ for n_ in a["regs"] if a["regs"][n_] != b["regs"][n_]][:4] + [f"imem[{j:02x}]" for j in range(256) if a["imem"][j] != b["imem"][j]][:4]
                vb.add(f"C07/{impl}/bookkeeping/{'closed' if closed else 'open'}/{tail}",
                       f"{impl} k={k} imr={imr:#x}: handlers left as {sel:0{k}b} (1 = RETI, 0 = frame popped by hand){' then one RETI handler' if closed else ''}: "
                       f"identical registers, flags, memory and cycle count at the common point, yet event #{i - nsync + 1} of {tail} differs from the "
                       f"all-RETI run in {diff} (PC {a['regs']['PC']:#x} vs {b['regs']['PC']:#x})", wit)
                break
    return n


def width_cases():
    """Second family: the interrupt mask is rewritten either by two byte stores (TXD, then IMR) or by one word store that
    begins one byte below it; a request was already standing in ISR.  Same bytes, same instruction and cycle count."""
    for imr0 in (0x80, 0x00, 0x0F):
        for imr1 in (0x8F, 0x82, 0x81, 0x0F):
            for isr0 in (0x02, 0x01, 0x08, 0x03):
                yield ("width", imr0, imr1, isr0)


def run_width(impl: str, h, case, vb: VB) -> int:
    _, imr0, imr1, isr0 = case
    sled = bytes.fromhex("00" * 10) + bytes([0x13, 11])
    progs = {"bytes": bytes([0xCC, 0xFA, 0x55, 0xCC, 0xFB, imr1]) + sled, "word": bytes([0x00, 0xCD, 0xFA, 0x55, imr1]) + sled}
    hist = [("step",)] * 10
    runs = {}
    for name, code in progs.items():
        cfg = M.default_cfg(code, bytes.fromhex("0001"), imr=imr0, isr=isr0, timer=(False, 0, 0), kb_press=1, kol=0xFF)
        runs[name] = M.run_py(cfg, hist) if impl == "python" else M.run_rs(h, cfg, hist)
    a, b = runs["bytes"], runs["word"]
    wit = {"book": True, "impl": impl, "case": list(case)}
    if any("err" in o for o in a + b) or len(a) != len(b):
        vb.add(f"C07/{impl}/store-width/run-error", f"{impl} {case}: {[o.get('err') for o in a + b if 'err' in o][:1]}", wit)
        return 2
    # after the second instruction both runs stand at the sled; a delivery may already have happened there (Rust delivers after the
    # instruction), so the comparison starts with that very observation and the PC offset of the two layouts (6 vs 5 code bytes) is removed
    def norm(o, off):
        regs = dict(o["regs"])
        if 0xC0000 <= regs["PC"] < 0xC0100:
            regs["PC"] -= off
        mem = tuple((base, d) for base, d in o["mem"])
        return (tuple(sorted(regs.items())), o["imem"], o["power"], len(mem))
    if imr0 & 0x80 and imr0 & isr0 & 0x0F:
        return 0          # deliverable from the start: the request is taken before either store, nothing to compare
    for i in range(1, len(a)):
        if norm(a[i], 6) != norm(b[i], 5):
            ra, rb_ = a[i]["regs"], b[i]["regs"]
            vb.add(f"C07/{impl}/store-width/{'delivery' if (ra['PC'] >= 0xC0100) != (rb_['PC'] >= 0xC0100) else 'state'}",
                   f"{impl}: IMR {imr0:#04x}->{imr1:#04x} with ISR={isr0:#04x} standing: after step {i + 1} the run that wrote TXD and IMR with two byte stores "
                   f"is at PC {ra['PC']:#x} IMR={a[i]['imem'][0xFB]:#04x} S={ra['S']:#x}, the run that used one word store at PC {rb_['PC']:#x} "
                   f"IMR={b[i]['imem'][0xFB]:#04x} S={rb_['S']:#x}", wit)
            break
    return 2


def shard(args):
    impl, cs = args
    h = rb.harness() if impl == "rust" else None
    vb = VB()
    n = 0
    for c in cs:
        n += run_width(impl, h, c, vb) if c[0] == "width" else run_case(impl, h, c, vb)
    return {"n": n, "vb": vb}


def replay(w) -> Optional[str]:
    rb.build()
    impl = w["impl"]
    h = rb.harness() if impl == "rust" else None
    vb = VB()
    if w["case"][0] == "width":
        run_width(impl, h, tuple(w["case"]), vb)
    else:
        k, closed, imr, tail = w["case"]
        run_case(impl, h, (k, bool(closed), imr, tail), vb)
    for sig, (cnt, wl) in vb.d.items():
        return wl[0][0]
    return None
