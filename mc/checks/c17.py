"""C17 — every copy of the architecture's tables and constants agrees.

Complete comparison of a finite configuration space:
  T  all 256 opcode rows: Python OPCODES (mapped with the repository's documented mapping,
     scripts/generate_llama_opcodes.py) vs the Rust OPCODES static dumped structurally by the harness
  R  register names / widths / sub-register layout across SC62015.regs, opcodes.REGISTERS/REG_SIZES,
     emulator.REGISTER_SIZE/_SUBREG_INFO, Rust mask_for / register_width, both snapshot layouts
  K  IMEM offsets, IMR/ISR masks, address-space and timer constants
  B  private Rust tables observed behaviourally: (first, second) mode of all 15 PRE bytes, the
     single-addressable rule for all 256 opcodes, IR / RESET vector addresses - against the Python
     tables and against Python execution
  V  Binary Ninja view segment tables
  W  device wiring: the internal-memory offsets at which ON-key level, timer expiry and the key matrix show up on both
     machines, against IMEMRegisters (the machines' bus glue hard-codes these offsets again)
"""
from __future__ import annotations

import importlib.util
import os
import re
from typing import Any, Dict, List, Optional, Tuple

from ..core import VB
from ..par import pmap, chunks
from .. import rustbridge as rb
from .. import drv

from sc62015.pysc62015.instr import opcodes as O
from sc62015.pysc62015.instr.opcode_table import OPCODES
from sc62015.pysc62015 import constants as C
from sc62015.pysc62015 import emulator as E
from sc62015.arch import SC62015

REPO = "/repo"


def _load_generator():
    spec = importlib.util.spec_from_file_location("gen_llama", os.path.join(REPO, "scripts", "generate_llama_opcodes.py"))
    mod = importlib.util.module_from_spec(spec)
    import sys
    sys.modules["gen_llama"] = mod
    spec.loader.exec_module(mod)  # type: ignore
    return mod


def _norm(s: str) -> str:
    return re.sub(r"\s+", "", s.replace("OperandKind::", "").replace("RegName::", "").replace("RegImemOffsetKind::", ""))


def python_rows(gen) -> Dict[int, Dict[str, Any]]:
    rows = {}
    for opcode, entry in OPCODES.items():
        # generate_llama_opcodes._width_bytes() asks EMemIMem for width() (inherited from Imm8, always 1)
        # before the table's own `_width`; the Python table value is `_width`, so that is what is compared.
        if isinstance(entry, tuple):
            cls, opts = entry
            eff = []
            for tmpl in (opts.ops or []):
                if type(tmpl).__name__ == "EMemIMem":
                    class _W:  # same class name for the documented mapping, explicit width
                        pass
                    w = type("EMemIMemWidth", (), {"width_bytes": tmpl._width})()
                    eff.append(w)
                else:
                    eff.append(tmpl)
            entry = (cls, O.Opts(ops_reversed=opts.ops_reversed, cond=opts.cond, name=opts.name, ops=eff))
        txt = gen._opcode_entry(opcode, entry)
        m = re.search(r"kind: InstrKind::(\w+),\s*name: \"([^\"]*)\",\s*cond: (.*?),\s*ops_reversed: (.*?),\s*operands: &\[(.*?)\],\s*\}",
                      txt, re.S)
        assert m, txt
        kind, name, cond, rev, ops = m.groups()
        cond = None if cond == "None" else re.match(r'Some\("(.*)"\)', cond).group(1)
        rev = None if rev == "None" else True
        # split operands on top-level commas
        parts, depth, cur = [], 0, ""
        for ch in ops:
            if ch == "(":
                depth += 1
            if ch == ")":
                depth -= 1
            if ch == "," and depth == 0:
                parts.append(cur)
                cur = ""
            else:
                cur += ch
        if cur.strip():
            parts.append(cur)
        rows[opcode] = {"kind": kind, "name": name, "cond": cond, "ops_reversed": rev,
                        "operands": [_norm(p) for p in parts]}
    return rows


def run(ctx) -> None:
    rb.build()
    h = rb.harness()
    vb = VB()
    n = 0
    samples: List[Any] = []
    t = h.call({"cmd": "tables"})
    gen = _load_generator()

    # ---- T: opcode rows ------------------------------------------------------------
    py = python_rows(gen)
    if sorted(py) != list(range(256)):
        vb.add("C17/python-table-incomplete", f"python OPCODES has {len(py)} rows", {"what": "rows"})
    rs = {r["opcode"]: r for r in t["opcodes"]}
    for op in range(256):
        n += 1
        p, r = py.get(op), rs.get(op)
        if p is None or r is None:
            vb.add(f"C17/opcode-row-missing/op={op:02X}", f"row {op:02X}: python {p} rust {r}", {"opcode": op})
            continue
        rr = {"kind": r["kind"], "name": r["name"], "cond": r["cond"],
              "ops_reversed": True if r["ops_reversed"] else None,
              "operands": [_norm(o) for o in r["operands"]]}
        for fld in ("kind", "name", "cond", "ops_reversed", "operands"):
            if p[fld] != rr[fld]:
                vb.add(f"C17/opcode-row/{fld}/op={op:02X}",
                       f"opcode {op:02X} {fld}: python-derived {p[fld]!r} vs rust {rr[fld]!r}", {"opcode": op, "field": fld})
    samples.append({"opcode_row": py[0x10]})

    # ---- R: registers --------------------------------------------------------------
    py_bytes = {k.name: v for k, v in E.REGISTER_SIZE.items() if not k.name.startswith("TEMP")}
    arch_regs = SC62015.regs
    want_bits = {"A": 8, "B": 8, "IL": 8, "IH": 8, "BA": 16, "I": 16, "X": 20, "Y": 20, "U": 20, "S": 20, "PC": 20,
                 "F": 8, "FC": 1, "FZ": 1}
    for name, bits in want_bits.items():
        n += 1
        m = t["masks"][name]
        if m != (1 << bits) - 1:
            vb.add(f"C17/reg-width/rust-mask/{name}", f"rust mask_for({name})={m:#x}, architectural width {bits} bits", {"reg": name})
        by = py_bytes.get(name)
        if by is None:
            vb.add(f"C17/reg-missing/python-emulator/{name}", f"{name} missing from emulator.REGISTER_SIZE", {"reg": name})
        elif by != (bits + 7) // 8 and not (bits == 20 and by == 3):
            vb.add(f"C17/reg-width/python-emulator/{name}", f"emulator.REGISTER_SIZE[{name}]={by} bytes vs {bits} bits", {"reg": name})
        rw = t["register_width"][name]
        exp_rw = 24 if name in ("X", "Y", "U", "S") else bits  # storage width of pointer registers is 3 bytes
        if rw != exp_rw:
            vb.add(f"C17/reg-width/rust-register_width/{name}", f"rust register_width({name})={rw}, expected {exp_rw}", {"reg": name})
    # effective masks through the real register files
    for name, bits in want_bits.items():
        regs = E.Registers()
        regs.set(E.RegisterName[name], 0xFFFFFFFF)
        got = regs.get(E.RegisterName[name])
        n += 1
        if got != (1 << bits) - 1:
            vb.add(f"C17/reg-width/python-effective/{name}", f"python Registers: {name} holds {got:#x} after writing all ones", {"reg": name})
    for name in ("BA", "A", "B", "I", "IL", "IH", "X", "Y", "U", "S", "PC"):
        n += 1
        info = arch_regs.get(name)
        if info is None:
            vb.add(f"C17/reg-missing/arch/{name}", f"SC62015.regs lacks {name}", {"reg": name})
            continue
        size = info.size
        if size != py_bytes[name]:
            vb.add(f"C17/reg-width/arch-vs-emulator/{name}", f"SC62015.regs[{name}].size={size} emulator {py_bytes[name]}", {"reg": name})
    sub = {"A": ("BA", 0), "B": ("BA", 1), "IL": ("I", 0), "IH": ("I", 1)}
    for name, (parent, off) in sub.items():
        n += 1
        info = arch_regs[name]
        full = getattr(info, "full_width_reg", getattr(info, "name", None))
        if full != parent or info.offset != off:
            vb.add(f"C17/subreg/arch/{name}", f"SC62015.regs[{name}] = {full}+{info.offset}, expected {parent}+{off}", {"reg": name})
        base, shift, mask = E.Registers._SUBREG_INFO[E.RegisterName[name]]
        if base.name != parent or shift != 8 * off or mask != 0xFF:
            vb.add(f"C17/subreg/emulator/{name}", f"_SUBREG_INFO[{name}] = {base.name},{shift},{mask:#x}", {"reg": name})
    for name, (shift) in (("FC", 0), ("FZ", 1)):
        base, sh, mask = E.Registers._SUBREG_INFO[E.RegisterName[name]]
        n += 1
        if base.name != "F" or sh != shift or mask != 1:
            vb.add(f"C17/subreg/emulator/{name}", f"_SUBREG_INFO[{name}] = {base.name},{sh},{mask}", {"reg": name})
    # decoder register table
    dec = {str(r): s for r, s in O.REG_SIZES.items()}
    for name in ("A", "IL", "BA", "I", "X", "Y", "U", "S"):
        n += 1
        if dec.get(name) != py_bytes[name]:
            vb.add(f"C17/reg-width/decoder-vs-emulator/{name}", f"opcodes.REG_SIZES[{name}]={dec.get(name)} emulator {py_bytes[name]}", {"reg": name})
    if [str(x) for x in O.REG_NAMES] != ["A", "IL", "BA", "I", "X", "Y", "U", "S"]:
        vb.add("C17/reg-selector-order", f"opcodes.REG_NAMES = {O.REG_NAMES}", {"what": "REG_NAMES"})
    # snapshot layouts
    from pce500.emulator import _SNAPSHOT_REGISTER_LAYOUT
    n += 1
    pl = [[a.upper(), b] for a, b in _SNAPSHOT_REGISTER_LAYOUT]
    if pl != [list(x) for x in t["snapshot_layout"]]:
        vb.add("C17/snapshot-layout", f"python {pl} vs rust {t['snapshot_layout']}", {"what": "layout"})

    # ---- K: constants --------------------------------------------------------------
    k = t["consts"]
    imem_py = {m.name: int(m) for m in O.IMEMRegisters}
    for name, off in k["IMEM"].items():
        n += 1
        if imem_py.get(name) != off:
            vb.add(f"C17/imem-offset/{name}", f"IMEMRegisters.{name}={imem_py.get(name)} rust IMEM_{name}_OFFSET={off:#x}", {"name": name})
    import pce500.emulator as PE
    import pce500.memory as PM
    pairs = [
        ("INTERNAL_MEMORY_START", C.INTERNAL_MEMORY_START, k["INTERNAL_MEMORY_START"]),
        ("INTERNAL_MEMORY_START/pce500.emulator", PE.INTERNAL_MEMORY_START, k["INTERNAL_MEMORY_START"]),
        ("INTERNAL_MEMORY_START/pce500.memory", PM.INTERNAL_MEMORY_START, k["INTERNAL_MEMORY_START"]),
        ("INTERNAL_MEMORY_LENGTH", C.INTERNAL_MEMORY_LENGTH, k["INTERNAL_SPACE"]),
        ("ADDRESS_SPACE_SIZE", C.ADDRESS_SPACE_SIZE, k["EXTERNAL_SPACE"] + k["INTERNAL_SPACE"]),
        ("PC_MASK", C.PC_MASK, t["masks"]["PC"]),
        ("INTERNAL_RAM_START", PE.PCE500Emulator.INTERNAL_RAM_START, k["INTERNAL_RAM_START"]),
        ("INTERNAL_RAM_SIZE", PE.PCE500Emulator.INTERNAL_RAM_SIZE, k["INTERNAL_RAM_SIZE"]),
        ("INTERNAL_ROM_START", PE.PCE500Emulator.INTERNAL_ROM_START, k["ROM_WINDOW_START"]),
        ("INTERNAL_ROM_SIZE", PE.PCE500Emulator.INTERNAL_ROM_SIZE, k["ROM_WINDOW_LEN"]),
        ("DEFAULT_CPU_HZ", PE.DEFAULT_CPU_HZ, k["DEFAULT_CPU_HZ"]),
        ("MTI_PERIOD", PE.MTI_PERIOD_CYCLES_DEFAULT, k["DEFAULT_MTI_PERIOD"]),
        ("STI_PERIOD", PE.STI_PERIOD_CYCLES_DEFAULT, k["DEFAULT_STI_PERIOD"]),
        ("SNAPSHOT_MAGIC", PE.SNAPSHOT_MAGIC, k["SNAPSHOT_MAGIC"]),
        ("SNAPSHOT_VERSION", PE.SNAPSHOT_VERSION, k["SNAPSHOT_VERSION"]),
        ("ENTRY_POINT_ADDR", O.ENTRY_POINT_ADDR, k["ROM_RESET_VECTOR_ADDR"]),
    ]
    for name, a, b in pairs:
        n += 1
        if a != b:
            vb.add(f"C17/const/{name}", f"{name}: python {a!r} vs rust {b!r}", {"name": name})
    for nm, val in (("MTM", 1), ("STM", 2), ("KEYM", 4), ("ONKM", 8), ("TXRM", 0x10), ("RXRM", 0x20), ("EXM", 0x40), ("IRM", 0x80)):
        n += 1
        if int(C.IMRFlag[nm]) != val:
            vb.add(f"C17/imr-flag/{nm}", f"IMRFlag.{nm}={int(C.IMRFlag[nm]):#x} expected {val:#x}", {"name": nm})
    for nm, val in (("MTI", 1), ("STI", 2), ("KEYI", 4), ("ONKI", 8), ("TXRI", 0x10), ("RXRI", 0x20), ("EXI", 0x40)):
        n += 1
        if int(C.ISRFlag[nm]) != val:
            vb.add(f"C17/isr-flag/{nm}", f"ISRFlag.{nm}={int(C.ISRFlag[nm]):#x} expected {val:#x}", {"name": nm})

    # ---- B: behavioural probes of private Rust tables -------------------------------
    n += _probe_modes(h, vb, samples)
    n += _probe_vectors(h, vb, samples)

    # ---- K: the emulator's private copy of the call/return opcode numbers (call-depth bookkeeping) vs the decoder table ----
    from sc62015.pysc62015 import emulator as _emu
    want_delta = {"CALL": 1, "CALLF": 1, "IR": 1, "RET": -1, "RETF": -1, "RETI": -1}
    for op in range(256):
        ins, _ = drv.py_decode(bytes([op]) + bytes.fromhex("3404050607"), 0x1000)
        name = ins.name() if ins is not None else None
        n += 1
        if _emu.CALL_STACK_EFFECTS.get(op) != want_delta.get(name):
            vb.add(f"C17/call-stack-effects/op={op:02X}", f"emulator.CALL_STACK_EFFECTS[{op:#04x}] = {_emu.CALL_STACK_EFFECTS.get(op)} but the decoder table says "
                   f"opcode {op:#04x} is {name} (expected {want_delta.get(name)})", {"op": op})
    # ---- R: the register table as the Rust core implements it (names, widths, sub-register layout, r3 selectors) --
    from . import c08, c06
    from ..core import VB as _VB
    base_hist = [("BA", 0x1234), ("I", 0xABCD), ("X", 0x12345), ("Y", 0x54321), ("U", 0x0F0F0), ("S", 0xA5A5A), ("F", 0x03)]
    rvb = _VB()
    hists = [tuple(base_hist + [(t, v)]) for t in c08.NAMES for v in (0x5A, 0xFFFFFF)] + [((t, 0x96),) for t in c08.NAMES]
    outs = h.batch([c08.rs_script(hh) for hh in hists])
    for hh, o in zip(hists, outs):
        c08.judge(hh, o, rvb)
        n += 1
    st_r = {"bpx": (0x10, 0x23, 0x45), "bg": {"BA": 0x12FF, "I": 0x34FF, "X": 0x2FFFF, "Y": 0x3FFFF, "U": 0x4FFFF, "S": 0x5FFFF}, "F": 0, "fill": 0x101}
    for opc in (0x6C, 0x7C):
        for sel in range(8):
            d = bytes([opc, sel]) + bytes(4)
            regs_, mem_, fill_ = c06.build_case(d, st_r, 0x1000)
            c06.judge_case(d, st_r, 0x1000, h.call(c06.rs_req(regs_, mem_, fill_)), rvb, f"r3-selector-{sel}")
            n += 1
    for sig, (cnt, wl) in rvb.d.items():
        what, wit = wl[0]
        vb.add("C17/register-table-behaviour/" + sig.split("/", 1)[1], what, {"regtable": True, "sig": sig})
    # ---- V: view segments ----------------------------------------------------------
    from sc62015 import view as V
    for cls in (V.SC62015RomView, V.SC62015FullView):
        segs = cls.SEGMENTS
        for i, a in enumerate(segs):
            n += 1
            if a.start < 0 or a.length <= 0 or a.start + a.length > C.ADDRESS_SPACE_SIZE:
                vb.add(f"C17/view/{cls.__name__}/out-of-space/{a.name}", f"{a.name}: [{a.start:#x},{a.start + a.length:#x}) outside address space", {"seg": a.name})
            for b in segs[i + 1:]:
                n += 1
                if a.start < b.start + b.length and b.start < a.start + a.length:
                    vb.add(f"C17/view/{cls.__name__}/overlap/{a.name}+{b.name}", f"{a.name} [{a.start:#x},+{a.length:#x}) overlaps {b.name} [{b.start:#x},+{b.length:#x})", {"seg": [a.name, b.name]})
        iram = [s for s in segs if "Internal" in s.name]
        n += 1
        if len(iram) != 1 or iram[0].start != C.INTERNAL_MEMORY_START or iram[0].length != C.INTERNAL_MEMORY_LENGTH:
            vb.add(f"C17/view/{cls.__name__}/internal-ram-placement", f"internal RAM segment {iram} vs INTERNAL_MEMORY_START {C.INTERNAL_MEMORY_START:#x}", {"cls": cls.__name__})
    # the address the lifter uses for internal memory
    il = drv.il_fp(bytes.fromhex("32c81000"), 0x1000)  # MV (10),(?) style: any IMEM access with PRE (n)
    n += 1
    consts = re.findall(r"'CONST_PTR\.l', (\d+)", repr(il))
    if not consts or any(int(c) < C.INTERNAL_MEMORY_START or int(c) >= C.ADDRESS_SPACE_SIZE for c in consts):
        vb.add("C17/view/lifter-internal-base", f"lifted IMEM pointers {consts} not inside the internal RAM segment", {"il": repr(il)[:200]})
    samples.append({"lifted_imem_pointers": consts})

    n += _probe_wiring(vb, samples)
    n += _probe_reljumps(h, vb, samples)
    n += _probe_runtime_prefixes(h, vb, samples)
    ctx.merge_bucket(vb)
    ctx.level = "exploration"
    ctx.coverage.update({
        "evaluations": n,
        "distinct_nontrivial": n,
        "exhaustive": True,
        "rule": ("finite configuration space compared completely: 256 opcode rows (5 fields each), register widths/"
                 "sub-register layout across 6 declarations, 15 IMEM offsets, IMR/ISR masks, 16 address-space/timer/"
                 "snapshot constants, 15 PRE bytes x 2 operand slots and 256 opcodes for the single-addressable rule "
                 "(behavioural, both cores), IR/RESET vectors (behavioural), all view segment pairs, device wiring (ON-key level, timer expiry, "
                 "matrix key: for each of the 32 offsets E0..FF read by a program on both machines with and without the stimulus, the reacting "
                 "offsets must be the ones IMEMRegisters gives to SSR/ISR/KIL); every comparison is "
                 "a distinct fact, so distinct_nontrivial == evaluations"),
        "samples": samples,
    })
    ctx.assumptions += ["scripts/generate_llama_opcodes.py is the documented Python->Rust row mapping",
                        "private Rust tables are observed through LlamaExecutor::execute on a flat bus"]


# --------------------------------------------------------------------------------------

def _imem(bp, px, py):
    base = C.INTERNAL_MEMORY_START
    return [[base + 0xEC, bp], [base + 0xED, px], [base + 0xEE, py]]


def _mode_addr(mode: str, n: int, bp: int, px: int, py: int) -> int:
    return {"(n)": n, "(BP+n)": bp + n, "(PX+n)": px + n, "(PY+n)": py + n, "(BP+PX)": bp + px, "(BP+PY)": bp + py}[mode] & 0xFF


def _probe_modes(h, vb, samples) -> int:
    """MV (m),(n) [opcode C8] with each PRE byte: which internal addresses are read/written by the Rust core."""
    cnt = 0
    bp, px, py = 0x10, 0x23, 0x45
    base = C.INTERNAL_MEMORY_START
    for pre in drv.PRE_BYTES:
        first = O.PRE_TABLE[1][pre].value
        second = O.PRE_TABLE[2][pre].value
        m, nn = 0x02, 0x07
        code = [pre, 0xC8, m, nn]
        mem = [[0x1000 + i, b] for i, b in enumerate(code)] + _imem(bp, px, py)
        src = _mode_addr(second, nn, bp, px, py)
        dst = _mode_addr(first, m, bp, px, py)
        mem.append([base + src, 0x5A])
        r = h.call({"cmd": "exec", "regs": {"PC": 0x1000}, "mem": mem, "steps": 1, "fill": 0})
        cnt += 2
        writes = {a: v for a, v in r.get("writes", [])}
        if r.get("err") or writes != {base + dst: 0x5A}:
            vb.add(f"C17/pre-modes/rust/pre={pre:02X}",
                   f"PRE {pre:02X}: python table says first={first} second={second}; rust MV (m),(n) wrote {writes} "
                   f"(expected {{{base + dst:#x}: 0x5a}}), err={r.get('err')}", {"pre": pre})
    samples.append({"pre_probe": "PRE xx C8 02 07 with BP=0x10 PX=0x23 PY=0x45"})
    # single-addressable rule: for opcodes whose python decode has exactly ... use PRE 0x30 ((n),(BP+n)) and 0x22 ((BP+n),(n))
    from sc62015.pysc62015.emulator import Emulator
    from binja_test_mocks.eval_llil import Memory
    for op in range(256):
        for pre in (0x30, 0x22):
            data = bytes([pre, op, 0x04, 0x06, 0x08, 0x0A, 0x0C])
            try:
                if drv.info_fp(data, 0x1000) is None:
                    continue
            except Exception:  # noqa: BLE001
                continue
            ins, _ = drv.py_decode(data, 0x1000)
            if ins is None or ins.name() in ("WAIT", "HALT", "OFF", "RESET", "IR"):
                continue
            cnt += 1
            from ..spec.operands import parse_operands
            regs0 = {"PC": 0x1000, "BA": 0x1234, "I": 1, "X": 0x20100, "Y": 0x20200, "U": 0x20300, "S": 0x20400, "F": 0}
            mem0 = {0x1000 + i: b for i, b in enumerate(data)}
            bpv, pxv, pyv = 0x40, 0x23, 0x45
            for a, v in _imem(bpv, pxv, pyv):
                mem0[a] = v
            try:
                _, ops = parse_operands(ins.render())
            except Exception:  # noqa: BLE001
                continue
            refs = [o.imem for o in ops if o.imem is not None]
            if not refs:
                continue
            cnt += 1
            imap = {0xEC: bpv, 0xED: pxv, 0xEE: pyv}
            denoted = sorted({base + r.offset(lambda o: imap.get(o, 0)) for r in refs})
            r = h.call({"cmd": "exec", "regs": regs0, "mem": [[a, v] for a, v in mem0.items()], "steps": 1, "fill": 5,
                        "log_reads": True})
            if r.get("err") or r.get("panic"):
                continue  # execution failures are C06's business
            skip = {base + 0xEC, base + 0xED, base + 0xEE, base + 0xFB}
            touched = {a for a, _ in r["writes"] if base <= a < base + 0x100} | \
                      {a for a in r.get("reads", []) if base <= a < base + 0x100 and a not in skip}
            near = lambda a: any(0 <= ((a - d) & 0xFF) < 3 and base <= a for d in denoted)  # noqa: E731
            stray = sorted(a for a in touched if not near(a))
            missing = [d for d in denoted if d not in touched]
            if stray or missing:
                vb.add(f"C17/addressing-tables/rust-vs-python-text/op={op:02X}/pre={pre:02X}",
                       f"{data.hex()} '{drv.asm_str(ins.render())}': the text (Python PRE/single-addressable tables) "
                       f"denotes internal {[hex(a) for a in denoted]}; the Rust core touched {[hex(a) for a in sorted(touched)]}",
                       {"bytes": data.hex()})
    return cnt


def _probe_vectors(h, vb, samples) -> int:
    from sc62015.pysc62015.emulator import Emulator
    from binja_test_mocks.eval_llil import Memory
    cnt = 0
    vec_mem = {0xFFFFA: 0x11, 0xFFFFB: 0x22, 0xFFFFC: 0x03, 0xFFFFD: 0x44, 0xFFFFE: 0x55, 0xFFFFF: 0x06}
    expect = {O.INTERRUPT_VECTOR_ADDR: 0x032211, O.ENTRY_POINT_ADDR: 0x065544}
    for name, opc, want_addr in (("IR", 0xFE, O.INTERRUPT_VECTOR_ADDR), ("RESET", 0xFF, O.ENTRY_POINT_ADDR)):
        mem0 = dict(vec_mem)
        mem0[0x1000] = opc
        regs0 = {"PC": 0x1000, "S": 0xB9000, "U": 0xB8800}
        store = dict(mem0)
        emu = Emulator(Memory(lambda a: store.get(a & 0xFFFFFF, 0), lambda a, v: store.__setitem__(a & 0xFFFFFF, v & 0xFF)),
                       reset_on_init=False)
        for kx, vx in regs0.items():
            emu.regs.set(E.RegisterName[kx], vx)
        emu.execute_instruction(0x1000)
        py_pc = emu.regs.get(E.RegisterName.PC)
        r = h.call({"cmd": "exec", "regs": regs0, "mem": [[a, v] for a, v in mem0.items()], "steps": 1})
        rs_pc = r["regs"]["PC"]
        cnt += 2
        want = expect[want_addr]
        if py_pc != want:
            vb.add(f"C17/vector/{name}/python", f"python {name} continues at {py_pc:#x}; the declared vector address "
                   f"{want_addr:#x} holds {want:#x}", {"insn": name})
        if rs_pc != want:
            vb.add(f"C17/vector/{name}/rust", f"rust {name} continues at {rs_pc:#x}; the declared vector address "
                   f"{want_addr:#x} holds {want:#x}", {"insn": name})
    samples.append({"vector_probe": "IR / RESET with distinct vectors at FFFFA and FFFFD"})
    return cnt


# --------------------------------------------------------------------------------------
# Device wiring: which internal-memory offset a device feature shows up at.  The machines hard-code these offsets a second
# time (bus hooks, keyboard/timer glue); the declared table is IMEMRegisters.  For every offset E0..FF a program reads the
# byte with and without the stimulus; the set of offsets that react must lie inside the registers the stimulus is documented
# to drive (a machine that does not model a feature at all, like the Python machine's ON-key level, reacts nowhere, which is fine).
WIRING = (
    # name, stimulus events before the read, cfg overrides, registers allowed to react, primary register
    ("on-key-level", (("press_on",),), {}, ("SSR", "ISR"), "SSR"),
    ("timers", (), {"timer": (True, 2, 3)}, ("ISR",), "ISR"),
    ("matrix-key", (("press", "KEY_Q"),), {"kol": 0x01, "kb_press": 1}, ("KIL", "ISR"), "KIL"),
)


def _wiring_reads(args):
    from .. import machine as M
    offs, = args
    h = rb.harness()
    out = {}
    for off in offs:
        # eight NOPs, then MV A,(off) with the direct-addressing prefix; the handler returns at once
        main = bytes([0x00] * 8) + bytes([0x32, 0x80, off]) + bytes([0x00] * 4)
        for name, stim, over, _allowed, _prim in WIRING:
            for with_stim in (False, True):
                cfg = M.default_cfg(main, bytes([0x01]), imr=0, timer=over.get("timer", (False, 0, 0)) if with_stim else (False, 0, 0),
                                    kb_irq=True, kb_press=over.get("kb_press"), kol=over.get("kol"))
                hist = (list(stim) if with_stim else []) + [("step",)] * 9
                try:
                    py = M.run_py(cfg, hist, obs_each=False)[-1]["regs"]["A"]
                except Exception as exc:  # noqa: BLE001
                    py = f"{type(exc).__name__}"
                rs = M.run_rs(h, cfg, hist, obs_each=False)[-1]["regs"]["A"]
                out[(name, off, with_stim)] = (py, rs)
    return out


def _probe_runtime_prefixes(h, vb, samples) -> int:
    """The Rust runtime (CoreRuntime::step) keeps its own idea of which bytes are prefixes when it accounts for WAIT idle cycles:
    for every first byte that the decoder table does NOT list as a prefix and that is a complete one-byte instruction, one step
    over [b, WAIT] must cost what one step over [b, NOP] costs (the WAIT behind it has not been reached yet); for the table's
    prefix bytes the fused PRE+WAIT must cost the I idle cycles."""
    from .. import machine as M
    pre_set = set(drv.PRE_BYTES)
    n = 0
    for b in range(0x100):
        ins, _ = drv.py_decode(bytes([b, 0x00, 0x00, 0x00, 0x00, 0x00]), 0xC0000)
        one_byte = ins is not None and ins.length() == 1 and b not in (0xEF, 0xDE, 0xDF, 0xFF, 0xFE, 0x01, 0x06, 0x07)
        if not (one_byte or b in pre_set):
            continue
        cyc = {}
        for second in (0x00, 0xEF):
            cfg = M.default_cfg(bytes([b, second]) + bytes(6), bytes([0x01]), imr=0, timer=(False, 0, 0))
            cfg["regs"]["I"] = 5
            o = M.run_rs(h, cfg, [("step",)], obs_each=False)[-1]
            cyc[second] = (o["cycles"], o["regs"]["I"] if b not in (0x2C, 0x3C, 0x2D, 0x3D) else None)
        n += 2
        if b in pre_set:
            pass      # how many cycles a prefixed WAIT costs is cycle accounting, not a table: not judged (the runtime charges 1)
        elif cyc[0xEF] != cyc[0x00]:
            vb.add(f"C17/runtime-prefix-set/rust/treated-as-prefix/op={b:02X}", f"rust runtime: one step over {b:02X} EF gives (cycles, I) = {cyc[0xEF]}, over {b:02X} 00 "
                   f"{cyc[0x00]}: the decoder table has {b:02X} as a complete one-byte instruction, the WAIT behind it is not part of this step",
                   {"runtime_prefix": b})
    samples.append({"runtime_prefix_probe_bytes": n // 2})
    return n


def _probe_wiring(vb, samples) -> int:
    imem = {r.name: int(r.value) for r in O.IMEMRegisters}
    offs = list(range(0xE0, 0x100))
    res: Dict[Any, Any] = {}
    for part in pmap(_wiring_reads, [(c,) for c in chunks(offs, 16)]):
        res.update(part)
    cnt = 0
    for name, _stim, _over, allowed, prim in WIRING:
        allow = {imem[a] for a in allowed}
        for idx, impl in ((0, "python"), (1, "rust")):
            react = {off for off in offs if res[(name, off, False)][idx] != res[(name, off, True)][idx]}
            cnt += len(offs)
            for off in sorted(react - allow):
                vb.add(f"C17/device-wiring/{impl}/{name}/reacts-at-{off:02X}", f"{impl} machine: the {name} stimulus changes what is read at internal offset "
                       f"{off:#04x} ({res[(name, off, False)][idx]} -> {res[(name, off, True)][idx]}); IMEMRegisters places "
                       f"{'/'.join(allowed)} at {', '.join(hex(imem[a]) for a in allowed)}", {"wiring": name, "impl": impl, "offset": off})
        samples.append({"wiring_" + name: {"python": sorted(hex(off) for off in offs if res[(name, off, False)][0] != res[(name, off, True)][0]),
                                            "rust": sorted(hex(off) for off in offs if res[(name, off, False)][1] != res[(name, off, True)][1])}})
    return cnt


def _probe_reljumps(h, vb, samples) -> int:
    """The direction of a relative jump is part of its operand shape in the Python table (ImmOffset('+') / ImmOffset('-')); the Rust
    table only says ImmOffset and keeps the direction in the evaluator.  Every row whose Python operand is an ImmOffset is executed on
    the Rust core under all four C/Z values with two displacements and must land where the Python row says (taken or not is the
    Python core's verdict for the same flags)."""
    from sc62015.pysc62015.emulator import Emulator
    from binja_test_mocks.eval_llil import Memory
    cnt = 0
    for op in range(256):
        row = OPCODES.get(op)
        if row is None:
            continue
        if not isinstance(row, tuple):
            continue
        ops = row[1].ops or []
        signs = [o.sign for o in ops if isinstance(o, O.ImmOffset)]
        if len(signs) != 1 or len(ops) != 1:
            continue
        sign = signs[0]
        for disp in (0x05, 0x85):
            for f in range(4):
                mem0 = {0x1000: op, 0x1001: disp}
                regs0 = {"PC": 0x1000, "F": f, "S": 0xB9000, "U": 0xB8800}
                store = dict(mem0)
                emu = Emulator(Memory(lambda a: store.get(a & 0xFFFFFF, 0), lambda a, v: store.__setitem__(a & 0xFFFFFF, v & 0xFF)), reset_on_init=False)
                for kx, vx in regs0.items():
                    emu.regs.set(E.RegisterName[kx], vx)
                emu.execute_instruction(0x1000)
                py_pc = emu.regs.get(E.RegisterName.PC)
                rs_pc = h.call({"cmd": "exec", "regs": regs0, "mem": [[a, v] for a, v in mem0.items()], "steps": 1})["regs"]["PC"]
                cnt += 1
                taken = py_pc != 0x1002
                want = (0x1002 + disp if sign == "+" else 0x1002 - disp) & 0xFFFFF if taken else 0x1002
                if py_pc != want:
                    vb.add(f"C17/rel-jump-direction/python/op={op:02X}", f"python {op:02X} {disp:02X} with F={f}: PC={py_pc:#x}, the table row says "
                           f"ImmOffset('{sign}') -> {want:#x}", {"reljump": op})
                if rs_pc != want:
                    vb.add(f"C17/rel-jump-direction/rust/op={op:02X}", f"rust {op:02X} {disp:02X} with F={f}: PC={rs_pc:#x}; the Python table row says "
                           f"ImmOffset('{sign}') -> {want:#x}", {"reljump": op})
    samples.append({"rel_jump_probe": f"{cnt} executions of the ImmOffset rows"})
    return cnt


def replay(ctx, w, sig=None) -> Optional[str]:
    # the configuration space is tiny: re-run everything and report whether the same signature is still seen
    from ..core import Ctx
    c = Ctx("C17", "quick", 0, replaying=True)
    run(c)
    if sig is not None:
        return c.found[sig][0][0] if sig in c.found else None
    for s_ in sorted(c.found):
        return c.found[s_][0][0]
    return None
