"""C10 — assembling a program lays out code, data and labels consistently.

Exhaustive enumeration of all statement sequences up to length N over a palette of statement templates
(instructions with and without symbolic operands, forward and backward references, data directives, sections,
numeric and symbolic .ORG), every statement labelled.  Oracle: a reference layout (section pointers from the
documented bases, .ORG, bss emits nothing) in which each statement's bytes are what the real assembler emits for
that statement ALONE at its address with symbols replaced by their values; the program image and the symbol table
must match; near jumps/calls to another 64 KiB page must be rejected.  Histories: ordered pairs of programs on one
Assembler object vs fresh objects.
"""
from __future__ import annotations

import itertools
import re
from typing import Any, Dict, List, Optional, Tuple

from ..core import VB, nproc
from ..par import pmap, chunks

from sc62015.pysc62015.sc_asm import Assembler, AssemblerError

BASES = {"code": 0x00000, "data": 0x80000}

# (template text, kind) ; {L} = label reference slot
PLAIN = [
    "NOP", "MV A, 0x12", "MV BA, 0x1234", "MV X, 0x12345", "MV (BP+0x10), 0x20", "MV [0x12345], (BP+0x10)",
    "MV [(BP+0x10)+0x02], A", "MV [(BP+0x10)], A", "MV (BP+0x10), [X+0x02]", "MV (BP+0x10), [X]",
    "defb 1, 2, 3", "defw 0x1234", "defl 0x012345", "defs 3", 'defm "AB"', 'defb "AB", 3', "defs 0", "",
    "JP 0x20100", "CALL 0x10100",      # near jump / call whose target is written as a full address (page 2 / page 1)
    'defm "A\\tB"',      # a string with a backslash sequence: whatever bytes it stands for, both passes must agree on how many
]
REFS = ["JP {L}", "JPZ {L}", "CALL {L}", "CALLF {L}", "JPF {L}", "MV X, {L}", "MV BA, {L}", "MV A, [{L}]", "defw {L}", "defl {L}", "defb {L}, 1",
        "jp {l}", "MV A, [X+{L}]", "MV [(BP+0x10)-{L}], A"]
LOCS = ["SECTION code", "SECTION data", "SECTION bss", "SECTION rodata", ".ORG 0x100", ".ORG 0x10100", ".ORG 0x1FFFD", ".ORG {L}"]


def palette(full: bool) -> List[Tuple[str, str]]:
    """(template, ref mode) pairs; ref mode 'fwd' = refers to the LAST label of the program, 'back' = to the first."""
    out: List[Tuple[str, str]] = [(t, "") for t in PLAIN] + [(t, "") for t in LOCS if "{L}" not in t]
    refs = REFS if full else ["JP {L}", "CALL {L}", "CALLF {L}", "MV X, {L}", "MV A, [{L}]", "defw {L}"]
    for t in refs + [".ORG {L}"] + (["defb {L}, 1", "jp {l}", "MV A, [X+{L}]"] if not full else []):
        out.append((t, "fwd"))
        out.append((t, "back"))
    return out


def program_text(stmts: List[Tuple[str, str]]) -> Tuple[str, List[str]]:
    n = len(stmts)
    lines = []
    plain = []
    for i, (t, mode) in enumerate(stmts):
        ref = f"L{n - 1}" if mode == "fwd" else "L0"
        body = t.replace("{L}", ref).replace("{l}", ref.lower())
        plain.append(body)
        lines.append(f"L{i}: {body}")
    return "\n".join(lines) + "\n", plain


_ALONE: Dict[Tuple[str, int], Any] = {}


def segments(binfile) -> Dict[int, int]:
    img: Dict[int, int] = {}
    for seg in binfile.segments:
        base = seg.address
        for k, b in enumerate(bytes(seg.data)):
            img[base + k] = b
    return img


def alone(stmt: str, addr: int):
    """Bytes the real assembler emits for one statement at addr (symbols already replaced)."""
    key = (stmt, addr)
    if key not in _ALONE:
        try:
            b = Assembler().assemble(f".ORG 0x{addr:X}\n{stmt}\n")
            img = segments(b)
            data = bytes(img[a] for a in sorted(img))
            if img and sorted(img) != list(range(addr, addr + len(img))):
                _ALONE[key] = ("err", "statement alone is not contiguous at its origin")
            else:
                _ALONE[key] = ("ok", data)
        except AssemblerError as exc:
            _ALONE[key] = ("err", str(exc).splitlines()[0])
        except Exception as exc:  # noqa: BLE001
            _ALONE[key] = ("err", f"{type(exc).__name__}: {exc}")
    return _ALONE[key]


def subst(stmt: str, symbols: Dict[str, int]) -> str:
    return re.sub(r"\b[Ll](\d+)\b", lambda m: f"0x{symbols['L' + m.group(1)]:X}" if ('L' + m.group(1)) in symbols else m.group(0), stmt)


class RefError(Exception):
    pass


def reference(plain: List[str], got_syms: Optional[Dict[str, int]]) -> Tuple[Dict[int, int], Dict[str, int], Dict[str, Tuple[str, int]]]:
    """Two reference passes. Returns (image, symbols, bss label offsets).  The statement does not say where bss starts, so
    bss label values are taken from the assembler (their mutual offsets are checked separately) and anything but plain
    data directives inside bss is left undefined."""
    def sizes_and_labels(symbols_guess: Optional[Dict[str, int]]):
        ptr = dict(BASES)
        bss_off = 0
        sec = "code"
        labels: Dict[str, Tuple[str, int]] = {}
        addrs: List[Tuple[str, int]] = []
        for i, st in enumerate(plain):
            low = st.lower()
            if low.startswith("section"):
                sec = low.split()[1]
                if sec not in ptr and sec != "bss":
                    # a section name of the user's own: the statement does not say where it starts, so (like bss) its start is taken
                    # from the label the assembler put on the SECTION line; everything after it must then be consistent with that
                    if got_syms is None or f"L{i}" not in got_syms:
                        raise RefError("user-section-rejected-or-unlabelled")
                    ptr[sec] = got_syms[f"L{i}"]
            elif low.startswith(".org"):
                arg = st.split(None, 1)[1]
                if re.fullmatch(r"L\d+", arg):
                    # a symbolic origin is defined when its symbol is defined on an earlier line (otherwise circular)
                    if arg not in labels or labels[arg][0] == "bss":
                        raise RefError("symbolic-org-forward-or-bss")
                    v = labels[arg][1]
                else:
                    v = int(arg, 0)
                if sec == "bss":
                    raise RefError("org-inside-bss")
                ptr[sec] = v
            here = ("bss", bss_off) if sec == "bss" else (sec, ptr[sec])
            labels[f"L{i}"] = here
            addrs.append(here)
            if low.startswith("section") or low.startswith(".org"):
                continue
            if not st.strip():
                continue
            if sec == "bss" and (re.search(r"\b[Ll]\d+\b", st) or not low.startswith("def")):
                raise RefError("instruction-or-reference-inside-bss")
            probe = subst(st, {f"L{k}": ((here[1] & 0xFF0000) | 0x0123) for k in range(len(plain))})
            r = alone(probe, here[1] if sec != "bss" else 0x1000)
            if r[0] != "ok":      # size does not depend on the value: retry with a small one, the real value is judged below
                r = alone(subst(st, {f"L{k}": 0x23 for k in range(len(plain))}), here[1] if sec != "bss" else 0x1000)
            if r[0] != "ok":
                raise RefError("statement-alone-rejected: " + r[1])
            size = len(r[1])
            if sec == "bss":
                bss_off += size
            else:
                ptr[sec] += size
        return labels, addrs
    labels, addrs = sizes_and_labels(None)
    symbols = {k: v[1] for k, v in labels.items() if v[0] != "bss"}
    bss_labels = {k: v for k, v in labels.items() if v[0] == "bss"}
    img: Dict[int, int] = {}
    for i, st in enumerate(plain):
        low = st.lower()
        if low.startswith("section") or low.startswith(".org") or not st.strip():
            continue
        sec, a = addrs[i]
        if sec == "bss":
            continue
        if any(f"L{k}" in re.findall(r"\bL\d+\b", st.upper()) for k in range(len(plain)) if f"L{k}" in bss_labels):
            if got_syms is None:
                raise RefError("refers-to-bss-label-and-rejected")
            symbols = dict(symbols, **{k: got_syms[k] for k in bss_labels if k in got_syms})
        m = re.fullmatch(r"(JP|JPZ|JPNZ|JPC|JPNC|CALL) (L\d+)", st.upper())
        if m and (symbols[m.group(2)] & 0xFF0000) != (a & 0xFF0000):
            # page-local jump/call to a label on another 64 KiB page (a bare number <= 0xFFFF would mean "this page")
            raise RefError("needs-rejection: near jump/call to another page")
        m = re.fullmatch(r"(JP|JPZ|JPNZ|JPC|JPNC|CALL) (0X[0-9A-F]+)", st.upper())
        if m and int(m.group(2), 16) > 0xFFFF and (int(m.group(2), 16) & 0xFF0000) != (a & 0xFF0000):
            # the same rule for a target written as a full address (a number above 0xFFFF names its page)
            raise RefError("needs-rejection: near jump/call to another page")
        r = alone(subst(st, symbols), a)
        if r[0] != "ok":
            raise RefError("needs-rejection: " + r[1])
        for k, b in enumerate(r[1]):
            if a + k in img:
                raise RefError("overlapping-statements")
            img[a + k] = b
    return img, symbols, bss_labels


def judge(stmts: List[Tuple[str, str]], vb: VB) -> str:
    text, plain = program_text(stmts)
    return judge_text(text, plain, vb)


def judge_text(text: str, plain: List[str], vb: VB) -> str:
    kinds = "+".join(sorted({p.split()[0].upper() + ("-sym" if re.search(r"\b[Ll]\d+\b", p) else "") for p in plain
                             if p.strip() and (p.split()[0].upper() in (".ORG", "SECTION") or re.search(r"\b[Ll]\d+\b", p))}))[:80] or "plain"
    wit = lambda: dict({"program": text}, **({"shard": dict(_SHARD)} if _SHARD else {}))  # noqa: E731
    asm = Assembler()
    try:
        out = asm.assemble(text)
        got_img = segments(out)
        got_err = None
    except AssemblerError as exc:
        got_img = None
        got_err = str(exc).splitlines()[0]
    except Exception as exc:  # noqa: BLE001
        vb.add(f"C10/unexpected-exception/{type(exc).__name__}/{kinds}", f"{text!r}: {type(exc).__name__}: {exc}", wit)
        return "bad"
    try:
        ref_img, ref_syms, bss_labels = reference(plain, dict(asm.symbols) if got_err is None else None)
        ref_err = None
    except RefError as exc:
        ref_img = None
        ref_err = str(exc)
    if ref_err is not None:
        if ref_err.startswith("needs-rejection") and got_err is None:
            vb.add(f"C10/accepts-what-a-single-statement-rejects/{kinds}",
                   f"program is accepted although one of its statements alone, with symbols replaced, is rejected ({ref_err}): {text!r}", wit)
            return "bad"
        return "undefined"        # symbolic .ORG, bss references, statements the assembler rejects on their own
    if got_err is not None:
        vb.add(f"C10/rejects-well-formed-program/{kinds}", f"{text!r}: {got_err}", wit)
        return "bad"
    bad = False
    if got_img != ref_img:
        extra = sorted(set(got_img) - set(ref_img))
        missing = sorted(set(ref_img) - set(got_img))
        diff = sorted(a for a in set(got_img) & set(ref_img) if got_img[a] != ref_img[a])
        what = (f"bytes at unexpected addresses {[hex(a) for a in extra[:4]]}" if extra else
                f"no bytes at {[hex(a) for a in missing[:4]]}" if missing else
                f"byte {diff[0]:#x} = {got_img[diff[0]]:#04x}, expected {ref_img[diff[0]]:#04x}")
        kind = "layout" if (extra or missing) else "encoding-differs-from-statement-alone"
        vb.add(f"C10/{kind}/{kinds}", f"{text!r}: {what}", wit)
        bad = True
    for name, val in ref_syms.items():
        if asm.symbols.get(name) != val:
            vb.add(f"C10/symbol-value/{kinds}", f"{text!r}: {name} = {asm.symbols.get(name)}, reference {val:#x}", wit)
            bad = True
            break
    if bss_labels:
        names = sorted(bss_labels)
        for a, b in zip(names, names[1:]):
            if asm.symbols.get(b, 0) - asm.symbols.get(a, 0) != bss_labels[b][1] - bss_labels[a][1]:
                vb.add(f"C10/bss-offsets/{kinds}", f"{text!r}: bss labels {a},{b} are {asm.symbols.get(b, 0) - asm.symbols.get(a, 0)} apart, "
                       f"reference {bss_labels[b][1] - bss_labels[a][1]}", wit)
                bad = True
                break
    return "bad" if bad else "ok"


_CTX: Dict[str, Any] = {}
_SHARD: Dict[str, Any] = {}


def _shard(args):
    progs, sid, cx = args
    _SHARD.clear()
    _SHARD.update(cx, sid=sid)       # recorded in every witness: module-level caches make the whole shard a program's history
    vb = VB()
    n = ok = undefined = 0
    for stmts in progs:
        r = judge(list(stmts), vb)
        n += 1
        ok += r == "ok"
        undefined += r == "undefined"
    return {"n": n, "ok": ok, "undefined": undefined, "vb": vb}


def result_fp(asm: Assembler, text: str):
    try:
        out = asm.assemble(text)
        return ("ok", tuple(sorted(segments(out).items())), tuple(sorted(asm.symbols.items())))
    except AssemblerError as exc:
        return ("err", str(exc).splitlines()[0])
    except Exception as exc:  # noqa: BLE001
        return ("exc", f"{type(exc).__name__}: {exc}")


def _hist(args):
    firsts, pool = args
    vb = VB()
    n = 0
    base = {p: result_fp(Assembler(), p) for p in pool}
    for a in firsts:
        for b in pool:
            asm = Assembler()
            result_fp(asm, a)
            r = result_fp(asm, b)
            n += 1
            if r != base[b]:
                vb.add("C10/assembler-keeps-state-between-calls", f"assembling {b!r} after {a!r} on one Assembler differs from a fresh one: "
                       f"{str(r)[:120]} vs {str(base[b])[:120]}", {"first": a, "second": b})
    return {"n": n, "ok": n, "undefined": 0, "vb": vb}


def all_programs(thorough: bool, seed: int) -> List[Tuple]:
    pal = palette(thorough)
    progs: List[Tuple] = []
    for L in (1, 2):
        progs += list(itertools.product(pal, repeat=L))
    small = [p for p in palette(False) if p[0] in SMALL]
    progs += list(itertools.product(small, repeat=3))
    if thorough:
        progs += list(itertools.product(palette(False), repeat=3))
        tiny = [p for p in small if p[0] in ("NOP", "defs 3", "SECTION data", "SECTION bss", ".ORG 0x10100", "JP {L}", "MV X, {L}", "defw {L}")]
        progs += list(itertools.product(tiny, repeat=4))
    if seed:
        k = seed % max(1, len(progs))
        progs = progs[k:] + progs[:k]
    return progs


SMALL = ("NOP", "SECTION rodata", ".ORG 0x1FFFD", "MV X, 0x12345", "defb 1, 2, 3", "defs 3", "SECTION data", "SECTION bss", "SECTION code",
         ".ORG 0x100", ".ORG 0x10100", "JP {L}", "CALLF {L}", "MV X, {L}", "defw {L}", ".ORG {L}")


def run(ctx) -> None:
    pal = palette(ctx.thorough)
    small = [p for p in palette(False) if p[0] in SMALL]
    progs = all_programs(ctx.thorough, ctx.seed)
    shards = chunks(progs, nproc() * 4)
    _CTX.update({"thorough": ctx.thorough, "seed": ctx.seed, "nshards": len(shards)})
    res = pmap(_shard, [(sh, i, dict(_CTX)) for i, sh in enumerate(shards)])
    pool_st = [[("NOP", ""), ("JP {L}", "back")], [("defb 1, 2, 3", ""), ("MV X, {L}", "fwd")], [("SECTION data", ""), ("defw {L}", "back")],
               [(".ORG 0x10100", ""), ("CALL {L}", "back")], [("SECTION bss", ""), ("defs 3", "")], [("JP {L}", "fwd"), (".ORG 0x10100", ""), ("NOP", "")],
               [("MV A, [{L}]", "fwd"), ("defm \"AB\"", "")], [(".ORG {L}", "fwd"), ("NOP", "")]]
    pool = [program_text(p)[0] for p in pool_st] + ["JP UNDEFINED_LABEL\n", "L0: NOP\nL0: NOP\n", "BOGUS 1\n", "MV A, 0x12\n"]
    hres = pmap(_hist, [(c, pool) for c in chunks(pool, 4)])
    for r in res + hres:
        ctx.merge_bucket(r["vb"])
    ctx.level = "exploration"
    ctx.coverage.update({
        "evaluations": sum(r["n"] for r in res + hres),
        "distinct_nontrivial": sum(r["ok"] for r in res) + sum(r["n"] for r in hres),
        "programs": sum(r["n"] for r in res),
        "programs_without_defined_reference": sum(r["undefined"] for r in res),
        "history_pairs": sum(r["n"] for r in hres),
        "exhaustive": True,
        "rule": (f"all statement sequences of length 1..2 over a {len(pal)}-template palette, length 3 over a {len(small)}-template palette"
                 + (f", length 3 over {len(palette(False))} templates and length 4 over 8 templates" if ctx.thorough else "") +
                 "; every statement carries a label, symbolic operands refer forwards (last label) or backwards (first label); judged "
                 "against the reference layout whose per-statement bytes come from assembling the statement alone at its address with "
                 "symbols replaced by values; programs whose reference is undefined (symbolic .ORG, references to bss labels, statements "
                 "rejected on their own) are only required not to be accepted when a statement alone is rejected; plus all ordered pairs "
                 f"of {len(pool)} programs (incl. failing ones) on one Assembler object vs fresh. distinct_nontrivial = programs judged ok + pairs."),
        "samples": [{"program": program_text([("JP {L}", "fwd"), (".ORG 0x100", ""), ("NOP", "")])[0]}],
    })
    ctx.assumptions += ["single-statement assembly is the oracle for statement encodings (C09 judges the encodings themselves)",
                        "bss labels are only constrained relative to each other (the statement does not say where bss starts)"]


def replay(ctx, w, sig=None) -> Optional[str]:
    vb = VB()
    if "program" in w:
        if "shard" in w and sig:
            # first in the history it was seen in (process-wide assembler caches): re-run its shard in this fresh process
            sh = w["shard"]
            progs = all_programs(sh["thorough"], sh["seed"])
            parts = chunks(progs, sh["nshards"])
            part = parts[sh["sid"]] if sh["sid"] < len(parts) else []
            r = _shard((part, sh["sid"], {k: sh[k] for k in ("thorough", "seed", "nshards")}))
            ent = r["vb"].d.get(sig)
            if ent:
                return ent[1][0][0]
        lines = [l for l in w["program"].splitlines() if l.strip()]
        judge_text(w["program"], [l.split(":", 1)[1].strip() for l in lines], vb)
        for s_, (cnt, wl) in vb.d.items():
            return wl[0][0]
        return None
    if "program" in w:
        lines = [l for l in w["program"].splitlines() if l.strip()]
        judge_text(w["program"], [l.split(":", 1)[1].strip() for l in lines], vb)
    else:
        r = _hist(([w["first"]], [w["second"]]))
        vb = r["vb"]
    for sig, (cnt, wl) in vb.d.items():
        return wl[0][0]
    return None
