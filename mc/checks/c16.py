"""C16 — saving and restoring a snapshot does not change the future.

Crash-point style enumeration on both machine models: every distinct reachable state of a bounded
exploration (C12's configurations and event alphabet) is a snapshot point; the snapshot is written with the
real save_snapshot, loaded into a fresh machine with the real load_snapshot, and every continuation up to
length K is run on the uninterrupted and on the restored machine; all observables are compared step by step.
Cross-format: Python bundles are loaded by the Rust runtime and vice versa.
"""
from __future__ import annotations

import itertools
import os
from typing import Any, Dict, List, Optional, Tuple

from ..core import VB, nproc, ROOT
from ..par import pmap, chunks
from .. import machine as M
from .. import rustbridge as rb
from . import c12

SNAPDIR = os.path.join(ROOT, ".build", "snap")
CONT = [("step",), ("press", "KEY_Q"), ("release", "KEY_Q"), ("press_on",)]
# controller bookkeeping flags (in_interrupt, irq_pending, key latch) are implementation detail: only what a program or a
# user can observe is compared; a lost flag shows up as a different future
FIELDS = ("regs", "imem", "power", "mem", "fifo", "kil", "timer_rel", "irq_delta", "lcd")


def view(o, base_irq: int) -> Dict[str, Any]:
    cyc = o["cycles"]
    return {
        "regs": tuple(sorted((k, v) for k, v in o["regs"].items() if k != "IMR")),
        "imem": o["imem"],
        "power": o["power"],
        "mem": tuple(m[1] for m in o["mem"]),
        "in_interrupt": o["in_interrupt"],
        "irq_pending": o["irq_pending"],
        "key_latched": o["key_latched"],
        "fifo": tuple(o["fifo"]),
        "kil": o["kil"],
        "timer_rel": ((o["next_mti"] - cyc, o["next_sti"] - cyc) if o["timer_enabled"] else None),
        "irq_delta": o["irq_total"] - base_irq,
        "lcd": o.get("lcd"),
    }


def first_diff(a: Dict[str, Any], b: Dict[str, Any]) -> Optional[Tuple[str, str]]:
    for f in FIELDS:
        if a[f] != b[f]:
            if f == "regs":
                da, db = dict(a[f]), dict(b[f])
                for n in da:
                    if da[n] != db[n]:
                        return f"reg:{n}", f"{n} {da[n]:#x} vs restored {db[n]:#x}"
            if f == "imem":
                for i, (x, y) in enumerate(zip(a[f], b[f])):
                    if x != y:
                        return f"imem:{i:02X}", f"internal memory {i:#04x}: {x:#04x} vs restored {y:#04x}"
            if f == "mem":
                for (base, _n), x, y in zip(M.OBS_MEM, a[f], b[f]):
                    if x != y:
                        k = next(i for i in range(len(x)) if x[i] != y[i])
                        name = "stack" if base == M.OBS_MEM[0][0] else f"{base + k:05X}"
                        return f"mem:{name}", f"memory byte {base + k:#x}: {x[k]:#04x} vs restored {y[k]:#04x}"
            return f, f"{f}: {str(a[f])[:60]} vs restored {str(b[f])[:60]}"
    return None


def snap_path(tag: str) -> str:
    os.makedirs(SNAPDIR, exist_ok=True)
    return os.path.join(SNAPDIR, f"{os.getpid()}-{tag}.pcsnap")


def reachable(impl, h, cfg, depth, max_dev) -> List[Tuple]:
    """Histories reaching every distinct state (canonical form of C12 without monitor state)."""
    def run_last(hist):
        return (M.run_py(cfg, hist, obs_each=False, lcd=True) if impl == "python" else M.run_rs(h, cfg, hist, obs_each=False, lcd=True))[-1]
    o0 = run_last(())
    seen = {c12.canon(o0, 0)}
    out = [()]
    frontier = [((), 0)]
    for _ in range(depth):
        nxt = []
        for hist, dev in frontier:
            for ev in c12.EVENTS:
                nd = dev + (0 if ev[0] == "step" else 1)
                if nd > max_dev:
                    continue
                hh = hist + (ev,)
                o = run_last(hh)
                if "regs" not in o:
                    continue
                k = c12.canon(o, 0)
                if k not in seen:
                    seen.add(k)
                    out.append(hh)
                    nxt.append((hh, nd))
        frontier = nxt
    return out


def context(hist, pre) -> str:
    fl = []
    if pre is not None and pre["power"] != "running":
        fl.append("halted")
    if pre is not None and pre["in_interrupt"]:
        fl.append("inhandler")
    if any(e[0] in ("inject", "press", "release") for e in hist):
        fl.append("key")
    if any(e[0] in ("press_on", "release_on") for e in hist):
        fl.append("onkey")
    return "+".join(fl) or "plain"


def check_point(impl, h, cfg, cname, hist, K, vb: VB) -> int:
    """Snapshot after hist; compare every continuation of length <= K."""
    path = snap_path(impl)
    n = 0
    conts = [c for k in range(1, K + 1) for c in itertools.product(CONT, repeat=k) if k == K] or [()]
    for cont in conts:
        full = tuple(hist) + tuple(cont)
        rest = tuple(hist) + (("save", path), ("load", path)) + tuple(cont)
        if impl == "python":
            a = M.run_py(cfg, full, lcd=True)
            b = M.run_py(cfg, rest, lcd=True)
        else:
            a = M.run_rs(h, cfg, full, lcd=True)
            b = M.run_rs(h, cfg, rest, lcd=True)
        n += 1
        if impl == "python" and cont == conts[0]:
            # loading into a machine that has already run something else must give the same machine as loading into a fresh one
            c = M.run_py(cfg, tuple(hist) + (("save", path), ("load_dirty", path)) + tuple(cont), lcd=True)
            for i in range(len(hist) + 1, min(len(b), len(c))):
                dd = first_diff(view(b[i], b[len(hist) + 1]["irq_total"]), view(c[i], c[len(hist) + 1]["irq_total"]))
                if dd:
                    vb.add(f"C16/python/load-into-used-machine-differs/{dd[0].split(':')[0]}", f"python {cname}: snapshot after {hist} loaded into a machine that had "
                           f"already run another program vs into a fresh one: {dd[1]}", {"impl": impl, "config": cname, "history": [list(e) for e in hist],
                                                                                      "cont": [list(e) for e in cont]})
                    break
        if len(b) != len(a) + 2:
            vb.add(f"C16/{impl}/harness-shape", f"unexpected observation count {len(a)} vs {len(b)}",
                   {"impl": impl, "config": cname, "history": [list(e) for e in hist], "cont": [list(e) for e in cont]})
            continue
        errs = [o.get("err") for o in b[len(hist): len(hist) + 2] if o.get("err")]
        if errs:
            vb.add(f"C16/{impl}/save-or-load-fails", f"{impl} {cname}: snapshot save/load raised {errs[0]} after {hist}",
                   {"impl": impl, "config": cname, "history": [list(e) for e in hist], "cont": []})
            continue
        base_a = a[len(hist) - 1]["irq_total"] if hist else 0
        if not hist:
            base_a = (M.run_py(cfg, (), obs_each=False) if impl == "python" else M.run_rs(h, cfg, (), obs_each=False))[-1]["irq_total"]
        base_b = b[len(hist) + 1]["irq_total"]
        # state right after load must equal the state that was saved
        pre_a = a[len(hist) - 1] if hist else None
        ctxs = context(hist, pre_a)
        if pre_a is not None:
            d0 = first_diff(view(pre_a, pre_a["irq_total"]), view(b[len(hist) + 1], b[len(hist) + 1]["irq_total"]))
            if d0:
                vb.add(f"C16/{impl}/state-after-load/{d0[0].split(':')[0]}" + (f"/{d0[0].split(':')[1]}" if ':' in d0[0] and d0[0].startswith('imem') else "") +
                       (f":{d0[0].split(':')[1]}" if d0[0].startswith('mem:') else "") + f"/{ctxs}",
                       f"{impl} {cname}: immediately after load {d0[1]} (snapshot taken after {hist})",
                       {"impl": impl, "config": cname, "history": [list(e) for e in hist], "cont": []})
        for i in range(len(cont)):
            oa, ob = a[len(hist) + i], b[len(hist) + 2 + i]
            d = first_diff(view(oa, base_a), view(ob, base_b))
            if d:
                fld = d[0] if d[0].startswith("mem:") else (d[0].split(":")[0] if not d[0].startswith("imem") else d[0].replace(":", "/"))
                vb.add(f"C16/{impl}/future-differs/{fld}/{ctxs}",
                       f"{impl} {cname}: snapshot after {hist}, continuation {cont[: i + 1]}: {d[1]}",
                       {"impl": impl, "config": cname, "history": [list(e) for e in hist], "cont": [list(e) for e in cont]})
                break
    return n


def _shard(args):
    impl, combos, depth, max_dev, K = args
    h = rb.harness() if impl == "rust" else None
    vb = VB()
    points = runs = 0
    samples = []
    for (p, hn, imr, timer) in combos:
        cname = f"{p}|{hn}|imr={imr:02x}|t={int(timer[0])},{timer[1]},{timer[2]}"
        cfg = c12.make_cfg(p, hn, imr, timer)
        hs = reachable(impl, h, cfg, depth, max_dev)
        for hist in hs:
            runs += check_point(impl, h, cfg, cname, hist, K, vb)
            points += 1
        if len(samples) < 1 and len(hs) > 3:
            samples.append({"impl": impl, "config": cname, "snapshot_after": [list(e) for e in hs[-1]], "continuation": [list(e) for e in CONT[:K]]})
    try:
        os.unlink(snap_path(impl))
    except OSError:
        pass
    return {"points": points, "runs": runs, "vb": vb, "samples": samples}


def _cross(args):
    """Python-saved bundles loaded by Rust and vice versa: registers, internal memory, probed memory, power."""
    combos, = args
    h = rb.harness()
    vb = VB()
    n = 0
    for (p, hn, imr, timer) in combos:
        cname = f"{p}|{hn}|imr={imr:02x}|t={int(timer[0])},{timer[1]},{timer[2]}"
        cfg = c12.make_cfg(p, hn, imr, timer)
        for hist in ((("step",),) * 2, (("press_on",),) + (("step",),) * 3, (("step",),) * 5):
            wit = {"cross": True, "config": cname, "history": [list(e) for e in hist]}
            pa, pb = snap_path("x-py"), snap_path("x-rs")
            py = M.run_py(cfg, hist + (("save", pa),))
            rs = M.run_rs(h, cfg, hist + (("save", pb),))
            n += 2
            # Rust loads the Python bundle
            r2 = M.run_rs(h, cfg, (("load", pa),))
            if r2[-1].get("err"):
                vb.add("C16/cross/rust-cannot-load-python-bundle", f"{cname}: {r2[-1]['err']}", wit)
            else:
                for fld in ("regs", "imem"):
                    x, y = py[-1][fld], r2[-1][fld]
                    if fld == "regs":
                        x = {k: v for k, v in x.items()}
                        y = {k: y[k] for k in x}
                    if x != y:
                        vb.add(f"C16/cross/python-bundle-in-rust/{fld}", f"{cname}: after loading the Python bundle Rust {fld} differs: "
                               f"{_d(x, y)}", wit)
            # Python loads the Rust bundle
            p2 = M.run_py(cfg, (("load", pb),))
            if p2[-1].get("err"):
                vb.add("C16/cross/python-cannot-load-rust-bundle", f"{cname}: {p2[-1]['err']}", wit)
            else:
                for fld in ("regs", "imem"):
                    x, y = rs[-1][fld], p2[-1][fld]
                    if fld == "regs":
                        y = {k: v for k, v in y.items()}
                        x = {k: x[k] for k in y}
                    if x != y:
                        vb.add(f"C16/cross/rust-bundle-in-python/{fld}", f"{cname}: after loading the Rust bundle Python {fld} differs: "
                               f"{_d(x, y)}", wit)
            # registers.bin byte identity for equal register files
            import zipfile
            with zipfile.ZipFile(pa) as za, zipfile.ZipFile(pb) as zb:
                ra, rbb = za.read("registers.bin"), zb.read("registers.bin")
                same_regs = all(py[-1]["regs"][k] == rs[-1]["regs"][k] for k in ("PC", "BA", "I", "X", "Y", "U", "S", "F"))
                if same_regs and ra != rbb:
                    vb.add("C16/cross/register-blob-differs", f"{cname}: equal registers but registers.bin {ra.hex()} vs {rbb.hex()}", wit)
                names_a, names_b = set(za.namelist()), set(zb.namelist())
                need = {"snapshot.json", "registers.bin", "external_ram.bin", "internal_ram.bin", "imem.bin"}
                if not need <= names_a or not need <= names_b:
                    vb.add("C16/cross/bundle-members", f"{cname}: members python {sorted(names_a)} rust {sorted(names_b)}", wit)
            for f in (pa, pb):
                try:
                    os.unlink(f)
                except OSError:
                    pass
    return {"points": 0, "runs": n, "vb": vb, "samples": []}


def _d(x, y) -> str:
    if isinstance(x, dict):
        return ", ".join(f"{k} {x[k]:#x}!={y[k]:#x}" for k in x if x[k] != y.get(k))[:200]
    return ", ".join(f"[{i:#04x}] {a:#04x}!={b:#04x}" for i, (a, b) in enumerate(zip(x, y)) if a != b)[:200]


def combos(impl, thorough, seed):
    progs = ["nop", "halt", "off", "wait", "imr_toggle", "imr_word", "ir", "lcd", "card", "clr_halt", "xram", "romw", "wait_scaled", "fhi"]
    if impl == "rust":
        hands = ["reti", "clr", "nest"]
        imrs = [0x8F, 0x0F] if not thorough else [0x00, 0x84, 0x8F, 0x0F]
        timers = [c12.TIMERS[0], c12.TIMERS[2]] if not thorough else [c12.TIMERS[0], c12.TIMERS[2], c12.TIMERS[6], c12.TIMERS[7]]
        if not thorough:
            hands = ["reti", "clr"]
    else:
        hands = ["reti", "clr"] if not thorough else ["reti", "clr", "nest"]
        imrs = [0x8F] if not thorough else [0x00, 0x8F, 0x0F]
        timers = [c12.TIMERS[2]] if not thorough else [c12.TIMERS[0], c12.TIMERS[2], c12.TIMERS[6]]
    out = [(p, hn, i, t) for p in progs for hn in hands for i in imrs for t in timers]
    # a machine whose host switched keyboard interrupts off (the switch is part of what a snapshot must carry)
    out += [("nop@kboff", "reti", 0x8F, c12.TIMERS[2]), ("halt@kboff", "reti", 0x8F, c12.TIMERS[0])]
    return out


def run(ctx) -> None:
    rb.build()
    n = nproc()
    rs = (5, 2, 2) if not ctx.thorough else (7, 2, 2)
    py = (4, 1, 1) if not ctx.thorough else (5, 1, 2)
    jobs = [("rust", c, *rs) for c in chunks(combos("rust", ctx.thorough, ctx.seed), n * 2)]
    jobs += [("python", c, *py) for c in chunks(combos("python", ctx.thorough, ctx.seed), n * 2)]
    res = pmap(_shard, jobs)
    xres = pmap(_cross, [(c,) for c in chunks(combos("python", False, 0), 4)])
    for r in res + xres:
        ctx.merge_bucket(r["vb"])
    # device level: the keyboard matrix saved and reloaded at every position of long press/hold/release/strobe scripts and at
    # every state of a BFS whose alphabet contains the snapshot (C14's drivers and reference automaton; snapshot = identity)
    from . import c14
    py_cfgs = [(ah, p, r, d, i) for ah in (True, False) for (p, r, d, i) in ((1, 1, 1, 1), (2, 2, 2, 1), (2, 1, 3, 2))]
    rs_cfgs = [(ah, p, 6, 24, 6) for ah in (True, False) for p in (1, 2)]
    kres = pmap(c14._scripted_snap, [("python", c) for c in py_cfgs] + [("rust", c) for c in rs_cfgs])
    kbfs = pmap(c14._bfs, [("python", c, 5 if ctx.thorough else 4, [("snap",)]) for c in py_cfgs[:2] + py_cfgs[3:4]] +
                [("rust", c, 4 if ctx.thorough else 3, [("snap",)]) for c in rs_cfgs[:2]])
    for r in kres + kbfs:
        for sig, (cnt, wl) in r["vb"].d.items():
            for what, wit in wl[:1]:
                w2 = dict(wit) if isinstance(wit, dict) else dict(wit())
                w2["kbd_device"] = True
                ctx.violation("C16/keyboard-device/" + sig.split("/", 1)[1], what, w2)
    # device level: the LCD controllers saved and reloaded inside command/data/read histories
    from . import c15
    lcd_ev = [("w", a, v) for a in (0x2000, 0x2002, 0x2008, 0x200A, 0x2004, 0xA00A) for v in (0x3F, 0x3E, 0x41, 0xB9, 0xC5, 0xE5, 0xFF, 0xA5)] + \
             [("r", a, 0) for a in (0x2009, 0x200B, 0x2005, 0x2007, 0x2001)] + [("s", 0, 0)]
    lres = pmap(c15._bfs, [(c, lcd_ev, 4 if ctx.thorough else 3) for c in chunks(lcd_ev, n)])
    wr = c15._wrap_runs()
    lres2 = pmap(c15._snap_scripts, chunks(wr if ctx.thorough else wr[::3], n))
    for r in lres + lres2:
        for sig, (cnt, wl) in r["vb"].d.items():
            for what, wit in wl[:1]:
                w2 = dict(wit)
                w2["lcd_device"] = True
                ctx.violation("C16/lcd-device/" + sig.split("/", 1)[1], what, w2)
    ctx.coverage["lcd_device_snapshot_runs"] = sum(r["transitions"] for r in lres) + sum(r["n"] for r in lres2)
    ctx.coverage["keyboard_device_snapshot_runs"] = sum(r["n"] for r in kres) + sum(r["transitions"] for r in kbfs)
    ctx.level = "fault_enumeration"
    pts = sum(r["points"] for r in res)
    runs = sum(r["runs"] for r in res + xres)
    ctx.coverage.update({
        "evaluations": runs,
        "distinct_nontrivial": pts,
        "snapshot_points": pts,
        "continuation_runs": runs,
        "exhaustive": True,
        "rule": ("snapshot points = every distinct reachable state (registers, internal memory, stack, power, timer distances, "
                 f"controller flags, FIFO) of a BFS to depth {rs[0]} (Rust) / {py[0]} (Python) with <= {rs[1]}/{py[1]} non-step events over "
                 "C12's configurations; at each point save -> fresh machine -> load, then every continuation of length "
                 f"{rs[2]}/{py[2]} over {{step, press, release, ON}} on original and restored machine, comparing registers, internal "
                 "memory, probed RAM, power, controller flags, FIFO, key-input value, timer distances, delivery counts and LCD state after "
                 "every step; plus cross-loading of Python and Rust bundles. distinct_nontrivial = distinct snapshot points."),
        "samples": [s for r in res for s in r["samples"]][:3],
    })
    ctx.assumptions += ["the Rust snapshot path runs through /verif/rust/zipshim (real ZIP container, deflate via miniz_oxide)",
                        "wall-clock fields (created, start_time) are not compared"]


def replay(ctx, w) -> Optional[str]:
    rb.build()
    vb = VB()
    if w.get("lcd_device"):
        from . import c15
        return c15.replay(ctx, w)
    if w.get("kbd_device"):
        from . import c14
        return c14.replay(ctx, w)
    p, hn, imr_s, t_s = w["config"].split("|")
    combo = (p, hn, int(imr_s.split("=")[1], 16), tuple([bool(int(t_s.split("=")[1].split(",")[0]))] + [int(x) for x in t_s.split("=")[1].split(",")[1:]]))
    if w.get("cross"):
        r = _cross(([combo],))
        vb = r["vb"]
    else:
        impl = w["impl"]
        h = rb.harness() if impl == "rust" else None
        cfg = c12.make_cfg(*combo)
        hist = tuple(tuple(e) for e in w["history"])
        cont = tuple(tuple(e) for e in w["cont"])
        global CONT
        check_point(impl, h, cfg, w["config"], hist, max(1, len(cont)), vb)
    for sig, (cnt, wl) in vb.d.items():
        return wl[0][0]
    return None
