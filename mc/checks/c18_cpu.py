"""C18, second half: driving the CPU through the virtual-time scheduler leaves the machine in the same state as the
synchronous step loop after the same number of instructions.

Enumeration: every machine configuration (firmware loop x handler x IMR x timer periods, keyboard events pre-applied)
x every instruction count N in 0..Nmax x every slice size, plus every split of N into two async runs with different
slice sizes and mixed sync/async runs.  Oracle: CoreRuntime::step(N) on a second machine built from the same
configuration (registers, internal memory, stack/probe memory, power state, cycle and instruction counters, timer
targets and interrupt bookkeeping, keyboard FIFO).
"""
from __future__ import annotations

import itertools
from typing import Any, Dict, List, Optional, Tuple

from .. import machine as M
from .. import rustbridge as rb
from ..core import VB, nproc
from ..par import pmap, chunks
from . import c12

SLICES = [1, 2, 3, 5, 8, 64, 10000]
PRE_EVENTS = [(), (("press_on",),), (("inject", "KEY_Q", 0),), (("press", "KEY_Q"),)]
FIELDS = ["regs", "imem", "power", "cycles", "instructions", "irq_total", "in_interrupt", "irq_pending", "key_latched",
          "delivered", "next_mti", "next_sti", "timer_enabled", "mem", "fifo"]


def diff(a: Dict[str, Any], b: Dict[str, Any]) -> List[str]:
    out = []
    for f in FIELDS:
        if a.get(f) != b.get(f):
            if f == "regs":
                out += [f"reg.{k}" for k in a["regs"] if a["regs"][k] != b["regs"].get(k)]
            elif f == "imem":
                out += [f"imem[{i:02x}]" for i in range(256) if a["imem"][i] != b["imem"][i]][:4]
            else:
                out.append(f)
    return out


def combos(thorough: bool):
    progs = list(c12.PROGRAMS)
    handlers = ["reti", "clr"] if not thorough else list(c12.HANDLERS)
    imrs = [0x00, 0x81, 0x8F] if not thorough else c12.IMRS
    timers = [(False, 0, 0), (True, 1, 0), (True, 3, 0), (True, 2, 3)] if not thorough else c12.TIMERS
    return list(itertools.product(progs, handlers, imrs, timers, range(len(PRE_EVENTS))))


def scripts(nmax: int, thorough: bool):
    """(name, events) where events are run after the pre-events; total instruction count is the key for the sync reference."""
    out = []
    for n in range(0, nmax + 1):
        for s in SLICES:
            out.append((n, f"async({n},slice={s})", [("async", n, s)]))
    for a, b in itertools.product(range(1, 5), repeat=2):
        for s1, s2 in ([(1, 3), (3, 1), (2, 64)] if not thorough else itertools.product([1, 2, 3, 64], repeat=2)):
            out.append((a + b, f"async({a},{s1})+async({b},{s2})", [("async", a, s1), ("async", b, s2)]))
        out.append((a + b, f"step({a})+async({b},2)", [("step", a), ("async", b, 2)]))
        out.append((a + b, f"async({a},2)+step({b})", [("async", a, 2), ("step", b)]))
    return out


def _shard(args):
    cs, nmax, thorough = args
    h = rb.harness()
    vb = VB()
    runs = 0
    outcomes = set()
    scr = scripts(nmax, thorough)
    for (p, hn, imr, timer, pe) in cs:
        cfg = c12.make_cfg(p, hn, imr, timer)
        pre = list(PRE_EVENTS[pe])
        # synchronous reference: one machine per N (fresh machine, step N at once and one at a time must agree too)
        ref: Dict[int, Dict[str, Any]] = {}
        reqs = [M.rs_req(cfg, pre + [("step", 1)] * n, obs_each=False) for n in range(0, nmax + 1)]
        reqs += [M.rs_req(cfg, pre + ([("step", n)] if n else []), obs_each=False) for n in range(0, nmax + 1)]
        reqs += [M.rs_req(cfg, pre + ev, obs_each=False) for (_, _, ev) in scr]
        resp = h.batch(reqs)
        for n in range(0, nmax + 1):
            ref[n] = M.rs_unpack(resp[n])[-1]
            bulk = M.rs_unpack(resp[nmax + 1 + n])[-1]
            d = diff(ref[n], bulk)
            runs += 1
            if d:
                vb.add(f"C18/cpu/step-n-vs-n-steps/{p}/{'+'.join(sorted(set(x.split('[')[0] for x in d)))[:60]}",
                       f"{p}|{hn}|imr={imr:02x}|t={timer}: step({n}) differs from {n} x step(1) in {d[:6]}",
                       {"cpu": True, "cfg": [p, hn, imr, list(timer), pe], "n": n, "events": [["step", n]]})
        for k, (n, name, ev) in enumerate(scr):
            got = M.rs_unpack(resp[2 * (nmax + 1) + k])[-1]
            runs += 1
            outcomes.add((got["regs"].get("PC"), got["power"], got["cycles"], got["irq_total"]))
            d = diff(ref[n], got)
            if got.get("err"):
                d.append("err:" + str(got["err"])[:40])
            if d:
                vb.add(f"C18/cpu/async-differs-from-sync/{p}/{'+'.join(sorted(set(x.split('[')[0] for x in d)))[:60]}",
                       f"{p}|{hn}|imr={imr:02x}|t={timer}|pre={pre}: {name} differs from step x{n} in {d[:6]} "
                       f"(PC {got['regs'].get('PC')} vs {ref[n]['regs'].get('PC')}, cycles {got['cycles']} vs {ref[n]['cycles']})",
                       {"cpu": True, "cfg": [p, hn, imr, list(timer), pe], "n": n, "events": [list(e) for e in ev]})
    return {"vb": vb, "runs": runs, "configs": len(cs), "outcomes": len(outcomes)}


def run_cpu_equivalence(ctx, h) -> Dict[str, Any]:
    nmax = 10 if not ctx.thorough else 16
    cs = combos(ctx.thorough)
    res = pmap(_shard, [(c, nmax, ctx.thorough) for c in chunks(cs, nproc() * 2)])
    for r in res:
        ctx.merge_bucket(r["vb"])
    return {"configs": len(cs), "runs": sum(r["runs"] for r in res), "scripts_per_config": len(scripts(nmax, ctx.thorough)),
            "max_instructions": nmax, "slices": SLICES, "distinct_outcomes": sum(r["outcomes"] for r in res)}


def _shard_split(args):
    """CoreRuntime::step(N) in one call vs every split step(a)+step(N-a) vs N single steps (used by C07: executing N+M
    instructions in one run equals two runs)."""
    cs, nmax, prefix = args
    h = rb.harness()
    vb = VB()
    runs = 0
    for (p, hn, imr, timer, pe) in cs:
        cfg = c12.make_cfg(p, hn, imr, timer)
        pre = list(PRE_EVENTS[pe])
        variants = []
        for n in range(1, nmax + 1):
            variants.append((n, f"step({n})", [("step", n)]))
            for a in range(1, n):
                variants.append((n, f"step({a})+step({n - a})", [("step", a), ("step", n - a)]))
        reqs = [M.rs_req(cfg, pre + [("step", 1)] * n, obs_each=False) for n in range(0, nmax + 1)]
        reqs += [M.rs_req(cfg, pre + ev, obs_each=False) for (_, _, ev) in variants]
        resp = h.batch(reqs)
        ref = {n: M.rs_unpack(resp[n])[-1] for n in range(0, nmax + 1)}
        for k, (n, name, ev) in enumerate(variants):
            got = M.rs_unpack(resp[nmax + 1 + k])[-1]
            runs += 1
            d = diff(ref[n], got)
            if d:
                vb.add(f"{prefix}/{p}/{'+'.join(sorted(set(x.split('[')[0] for x in d)))[:60]}",
                       f"{p}|{hn}|imr={imr:02x}|t={timer}|pre={pre}: {name} differs from {n} x step(1) in {d[:6]} "
                       f"(PC {got['regs'].get('PC')} vs {ref[n]['regs'].get('PC')})",
                       {"cpu": True, "split": True, "cfg": [p, hn, imr, list(timer), pe], "n": n, "events": [list(e) for e in ev]})
    return {"vb": vb, "runs": runs}


def run_step_split(ctx, prefix: str) -> Dict[str, Any]:
    cs = combos(ctx.thorough)
    nmax = 8 if not ctx.thorough else 12
    res = pmap(_shard_split, [(c, nmax, prefix) for c in chunks(cs, nproc() * 2)])
    for r in res:
        ctx.merge_bucket(r["vb"])
    return {"configs": len(cs), "max_instructions": nmax, "runs": sum(r["runs"] for r in res)}


def replay(w) -> Optional[str]:
    p, hn, imr, timer, pe = w["cfg"]
    cfg = c12.make_cfg(p, hn, imr, tuple(timer))
    pre = list(PRE_EVENTS[pe])
    h = rb.harness()
    ref = M.run_rs(h, cfg, pre + [("step", 1)] * w["n"], obs_each=False)[-1]
    got = M.run_rs(h, cfg, pre + [tuple(e) for e in w["events"]], obs_each=False)[-1]
    d = diff(ref, got)
    return f"differs from the synchronous loop in {d[:6]}" if d else None
