"""Explicit-state breadth-first exploration over event histories.

A state is identified by the event history that reaches it; the implementation object is rebuilt
(replayed) from scratch for every transition, so nothing is copied and nothing leaks between
branches.  Dedup is on a caller-supplied canonical key.
"""
from __future__ import annotations

from collections import deque
from typing import Any, Callable, Dict, Iterable, List, Optional, Tuple


class BFSResult:
    def __init__(self) -> None:
        self.states = 0
        self.transitions = 0
        self.max_depth = 0
        self.capped = False
        self.outcomes: set = set()
        self.samples: List[Any] = []


def bfs(run: Callable[[Tuple[Any, ...]], Any],
        canon: Callable[[Any], Any],
        alphabet: Callable[[Any, Tuple[Any, ...]], Iterable[Any]],
        on_transition: Callable[[Tuple[Any, ...], Any, Any, Any], None],
        max_depth: int,
        init: Iterable[Tuple[Any, ...]] = ((),),
        max_states: Optional[int] = None,
        dedup: bool = True) -> BFSResult:
    """run(history) -> observation of the state reached by replaying history on a fresh object.
    on_transition(history, event, pre_obs, post_obs) judges one transition."""
    res = BFSResult()
    seen: Dict[Any, int] = {}
    frontier: deque = deque()
    for h in init:
        obs = run(tuple(h))
        k = canon(obs)
        if k not in seen:
            seen[k] = 0
            frontier.append((tuple(h), obs, 0))
    while frontier:
        hist, obs, depth = frontier.popleft()
        if depth >= max_depth:
            continue
        for ev in alphabet(obs, hist):
            nh = hist + (ev,)
            post = run(nh)
            res.transitions += 1
            on_transition(hist, ev, obs, post)
            k = canon(post)
            res.outcomes.add(k if not isinstance(k, (list, dict)) else repr(k))
            if (not dedup) or k not in seen:
                if max_states is not None and len(seen) >= max_states:
                    res.capped = True
                    continue
                if k not in seen:
                    seen[k] = depth + 1
                res.max_depth = max(res.max_depth, depth + 1)
                frontier.append((nh, post, depth + 1))
                if len(res.samples) < 3 and depth + 1 >= 2:
                    res.samples.append(list(nh))
    res.states = len(seen)
    return res
