"""Regenerates /verif/MANIFEST.json from the table below (keeps it valid at all times).
Usage: /venv/bin/python -m mc.manifest_gen"""
from __future__ import annotations

import json
import os

ROOT = os.path.dirname(os.path.dirname(os.path.abspath(__file__)))

BASELINE_CMD = ("cd /repo && /venv/bin/python -m pytest -ra -q -p no:cacheprovider --timeout=900 "
                "--continue-on-collection-errors")

# id -> (category, technique, level text, level note, design ref)
CHECKS = {
    "C02": ("exploration",
            "exhaustive enumeration of the structural encoding space (prefix x opcode x selector byte) "
            "plus per-position byte sweeps, round-trip oracle on the real decoder/encoder",
            "Every one of the 16 x 256 x 256 structural shapes and every value of every operand position of one "
            "representative per rendered shape (also followed by an instruction sharing its opcode) is decoded, re-encoded and "
            "re-decoded by the real code; the space is "
            "finite and enumerated completely, so within it there is no unsampled input.",
            "Operand bytes past the selector are covered by fills and per-position sweeps, not all 2^40 tails; "
            "binja_test_mocks Encoder/Decoder trusted.",
            "DESIGN.md section 4, C02"),
    "C01": ("exploration",
            "exhaustive enumeration of the structural encoding space x every truncation length, follower classes, "
            "ordered decode-history pairs and boundary addresses on the real decoder, arch callbacks and emulator fetch",
            "All 16 x 256 x 256 structural shapes at every buffer length 0..7, every first-instruction representative "
            "against one follower per (opcode, decode outcome), followers sharing prefix and opcode with flipped operand bytes "
            "(length, text and IL of the first must not change) and full 65536-follower sweeps, all ordered pairs of "
            "history representatives (each shard in a fresh process so histories are reproducible), boundary addresses; "
            "metamorphic oracles need no reference, so every disagreement is a real one.",
            "Operand bytes beyond the second are covered by fills (C02 sweeps every position); callbacks run against "
            "binja_test_mocks as the repository's own tests do.",
            "DESIGN.md section 4, C01"),
    "C03": ("exploration",
            "exhaustive enumeration of structural encodings x an addressing-mode-separating state palette; the rendered token "
            "stream is parsed and interpreted by documented addressing rules (reference), the lifted IL runs on the real Emulator "
            "over a recording memory; read/write address sets are compared",
            "Every structural shape (prefix x opcode x selector byte) in 2-3 states where BP, PX, PY, the pointer registers and I "
            "are pairwise distinct (one state forces 8-bit wrap) is executed; data reads must lie within the bytes the text denotes "
            "(plus address-formation bytes) and cover the denoted sources, written addresses must equal the denoted destination "
            "bytes, so a render/lift disagreement on mode, width, direction or count is visible in every state.",
            "Situations the documentation leaves open (multi-byte internal accesses crossing 0xFF, invalid BCD) are skipped and "
            "counted; the reference (spec/operands.py, spec/isa.py) is written from README tables and is part of the trusted base.",
            "DESIGN.md section 4, C03"),
    "C04": ("exploration",
            "exhaustive enumeration against a reference interpreter written from the README instruction tables: every structural "
            "shape x state palette (values, flags, side effects, frame), complete 2^17 (a,b,carry) sweeps for 8-bit operations, full "
            "palette cross products for wide forms, I in 1..4 x byte palettes for counted forms, stack/call families",
            "The Python core executes the lifted IL of each case and every register, C/Z and every written byte is compared with the "
            "documented result; anything else changing is a frame violation. The 8-bit value space is covered completely for the "
            "rotated operation(s) (all nine in thorough) and on a dense grid otherwise; multi-byte operations are specified "
            "arithmetically (big-integer / BCD / digit shift), not as byte loops, so carry-chain bugs cannot hide.",
            "The reference (spec/isa.py) is trusted and only constrains what the README defines (don't-cares: C after SWAP, C/Z after "
            "HALT/OFF, RESET vector, DADL carry-in, F bits 2..7; undocumented situations are skipped and counted); 16/20/24-bit values "
            "by boundary palettes.",
            "DESIGN.md section 4, C04"),
    "C05": ("exploration",
            "exhaustive enumeration of encodings x boundary addresses x flag values x displacement/target palettes; static "
            "metadata of get_instruction_info compared with the PC reached by the real Emulator; inverse-pair runs",
            "Every structural shape (prefix set) at addresses incl. 64 KiB page edges and the top of the address space under all "
            "four C/Z values, every 8-bit displacement and a 12-value palette per target byte for control-flow opcodes; CALL..RET, "
            "CALLF..RETF, IR..RETI with 5 callee bodies; the oracle is execution itself, so no reference model is involved.",
            "16/20-bit targets by palette, not all values; IR is judged only through the pair law; FunctionReturn/Unresolved "
            "branches carry no target.",
            "DESIGN.md section 4, C05"),
    "C06": ("exploration",
            "exhaustive differential enumeration: every structural encoding x a state palette executed once on the "
            "Python Emulator and once on the Rust LlamaExecutor from identical state, plus all ordered pairs/triples of an "
            "instruction palette and loop skeletons in lockstep",
            "The structural encoding space (16 prefixes x 256 opcodes x every selector byte) is enumerated completely and "
            "crossed with 2 (quick) / 8 (thorough) architectural states chosen so every addressing mode lands on a "
            "different address; all observables the statement lists are compared after every instruction. Control-flow scripts: every sequence (length <= 4/5) "
            "over {CALL, CALLF same/other page, JP, JPF, RET, RETF, RETI, IR, pushes} laid out along its own control flow across pages.",
            "Register/memory values come from palettes and a hash fill, not all values; both cores run on the same flat "
            "24-bit byte map (device windows are C11/C12); I is kept in 1..3; 17 divergence classes are recorded as known "
            "findings with signatures naming opcode and prefix class.",
            "DESIGN.md section 4, C06"),
    "C07": ("exploration",
            "exhaustive metamorphic enumeration on both cores: every structural shape under 3 scratch-register fillings x 2 "
            "call-bookkeeping states, all ordered (history, instruction) pairs same-object vs fresh-object, every split "
            "N+M of loop skeletons, repeated/fresh-process determinism, self-modifying code",
            "No reference is needed: two executions that differ only in hidden state (TEMP0-13, call depth/stack/page "
            "bookkeeping, earlier instructions in the same emulator or harness process, process-wide counters) must give "
            "identical architectural results; every element of the stated finite domains is executed on both cores. The last "
            "instruction of every control-flow script (calls/returns/interrupts across pages, length <= 4/5) is run in the object "
            "that executed the script and in a fresh object holding the same registers and memory. Machine level: all 2^k ways "
            "(k<=3) of leaving k interrupt handlers through RETI or by popping the frame by hand, and the interrupt mask written by "
            "byte stores vs one word store, are brought to one common architectural state and continued under four event tails.",
            "Architectural state is taken as BA,I,X,Y,U,S,PC,F plus memory; machine-level split runs are covered by the "
            "C12/C16/C18 drivers.",
            "DESIGN.md section 4, C07"),
    "C08": ("model_checking",
            "explicit-state BFS over register write histories on the real Python Registers and Rust LlamaState "
            "(closure per alias group, all sequences up to depth 2/3 over the full alphabet) against a reference register file",
            "Every write sequence up to the stated depth over 16 write targets x a 15+ value palette, and every reachable "
            "state of each alias group, is replayed on both real register files; after every write all 14 names are read "
            "and compared with a reference model, a snapshot round trip into a fresh file and the register blobs.",
            "Values come from a boundary palette (plus seed values), not all 2^32; the Rust side is driven through the "
            "verification harness' thin command layer.",
            "DESIGN.md section 4, C08"),
    "C09": ("exploration",
            "exhaustive enumeration of every instruction text the disassembler can produce for the structural encoding space; "
            "each text is assembled by the real Assembler and the result re-disassembled (metamorphic round trip)",
            "All structural shapes (prefix set; all 16 prefixes and two operand fills in thorough) are rendered with hexadecimal "
            "literals and register names and assembled; success, equal text, equal length, structurally equal lifted IL and a "
            "second-round fixed point are required; all 15 prefixes for opcodes with two internal-memory operands in every tier; operand "
            "value sweeps per byte position. No reference model: the disassembler is its own oracle.",
            "Operand values come from two fills; redundant PRE bytes in front of instructions without internal-memory operands are "
            "out of scope; five root-cause classes are recorded as known findings (mostly pinned by the repository's assembler tests).",
            "DESIGN.md section 4, C09"),
    "C10": ("exploration",
            "exhaustive enumeration of all statement sequences up to a bounded length over a palette of statement templates, each "
            "assembled by the real two-pass Assembler and judged against a reference layout; all ordered pairs of assemble() calls "
            "on one object vs fresh objects",
            "Every statement is labelled; symbolic operands refer forwards and backwards; sections, numeric and symbolic .ORG, "
            "defb/defw/defl/defs/defm. Reference: per-section pointers from the documented bases, bss emits nothing, each "
            "statement's bytes are what the real assembler emits for that statement alone at its address with symbols replaced "
            "by values, near jumps/calls to another page must be rejected; image and Assembler.symbols must match.",
            "Programs whose layout the statement does not define (forward/self-referential symbolic .ORG, .ORG or instructions inside "
            "bss, overlapping statements) are only required not to be accepted when one of their statements alone is rejected. "
            "Statement encodings themselves are C09's subject.",
            "DESIGN.md section 4, C10"),
    "C11": ("model_checking",
            "explicit-state exploration of store/load histories on the real Python PCE500Memory and Rust MemoryImage for a "
            "product of memory configurations, each transition judged against the implementation's own pre-state with a "
            "reference canonicalisation/classification",
            "For every configuration (ROM image, card none/absent/sizes, RAM+ROM overlays, mirror, read-only range) all store "
            "histories up to depth 2 over 8/16/24-bit stores (values incl. writing the initial value back) at 29 boundary addresses "
            "(+32-bit aliases), incl. a ROM image shorter than its window, are executed; after each, "
            "79 probe bytes are read back: the stored bytes must appear exactly at the canonical target cells when writable, and "
            "nothing else may change (RAM law, frame, internal/external separation, read-only, LE composition, alias equality).",
            "Addresses 0x100100-0xFFFFFF are outside the documented space and not judged; device windows are not installed on "
            "the bare memory objects; overlay precedence among overlapping overlays is not constrained by the statement.",
            "DESIGN.md section 4, C11"),
    "C12": ("model_checking",
            "deviation-bounded explicit-state search on both real machine models (Rust CoreRuntime, Python PCE500Emulator) over "
            "firmware loops x handlers x initial masks x timer periods, every transition judged by statement-derived monitors",
            "For each configuration a BFS over {step, ON press/release, key press/release, injected key event} with a bounded "
            "number of non-step events explores all reachable machine states to the stated depth (also from roots where a handler "
            "has already returned); monitors check gated delivery, the 5-byte frame, master-enable clearing, the vector, RETI as "
            "inverse, that pending requests are neither lost nor ignored once unmasked, HALT freeze/wake and OFF stopping timers. "
            "Step-only runs of 52/80 instructions (timer pairs that expire once, a late single unmask, stack frames across the RAM edge, "
            "keyboard interrupts switched off) go through the same monitors.",
            "Synthetic ROM (vectors, short loops) instead of real firmware; handlers begin with NOP and main loops leave S/F alone "
            "so a delivery is recognisable across one step on both models; depth 6/10 (Rust) and 5/7 (Python), <=2/3 deviations.",
            "DESIGN.md section 4, C12"),
    "C13": ("model_checking",
            "explicit-state BFS to closure over tick/reset/snapshot/ISR-clear histories on the real TimerScheduler "
            "(via PCE500Emulator._tick_timers) and Rust TimerContext::tick_timers against a reference timer pair",
            "For every small period pair the canonical state space (distance to next targets, ISR bits) is explored to "
            "closure with every transition executed on both real implementations; default periods get all directed gap "
            "sequences up to length 3/4; per-cycle runs count fires exactly.",
            "Machine level: NOP/WAIT/HALT/OFF/ISR-clearing loops x handlers x masks x 9-12 period pairs stepped on both machines "
            "(incl. a RESET-executing one) with an alignment-agnostic per-step monitor (target in the future, no boundary skipped, phase kept, status bit set, "
            "disabled timers silent; tick alignment calibrated per machine on a NOP loop and required of idle HALT cycles); the device BFS also "
            "contains the real Python save/load path, a snapshot taken after the counter advanced and a whole-machine reset. "
            "Periods above 7 are covered by directed sequences only; counters beyond 2^31 by one large gap followed by snapshot/ticks "
            "(periods >= 1024).",
            "DESIGN.md section 4, C13"),
    "C18": ("model_checking",
            "exhaustive enumeration (in Rust, on the real AsyncDriver) of task sets x budget partitions against a reference "
            "discrete-event scheduler; async-vs-sync CPU equivalence on the machine driver",
            "Every task set of the stated families (1-4 cooperative tasks, all sleep/emit/pending scripts up to the stated "
            "length) is run under every budget sequence up to the stated length plus a drain on the real scheduler; the "
            "resumption log must be a prefix of / equal to the reference log and events must come back exactly once in order. "
            "CPU half: every machine configuration (8 firmware loops x handlers x IMR x timer periods x pre-applied key events) x "
            "every instruction count 0..10/16 x 7 slice sizes, every two-run split and mixed sync/async run through "
            "AsyncRuntimeRunner vs CoreRuntime::step on a twin machine (registers, memory, counters, timers, interrupt bookkeeping). Every scheduler "
            "case is repeated with all events carrying the same value and right after an unrelated driver finished on the same thread.",
            "Durations come from {0,1,2,3,5}; budgets from {1,2,3,4,7}; larger sets/scripts are not explored. Budget "
            "accounting itself (whether a task due exactly at the budget edge runs) is not part of the statement.",
            "DESIGN.md section 4, C18"),
    "C14": ("model_checking",
            "explicit-state BFS over key press/release, strobe writes, scan ticks and key-input reads on the real Python and "
            "Rust KeyboardMatrix against a reference debounce/repeat automaton, plus scripted long runs and the KEYI gating matrix",
            "All histories up to the stated depth over 3 colliding keys (shared row, shared column) and 5 strobe values, "
            "both column polarities and several debounce/repeat settings, are replayed on each real matrix; event streams, "
            "key-input lower/upper bounds, FIFO capacity/drop-oldest and per-key event order are judged on every transition. The "
            "Python matrix is driven both directly and through the bus-facing PCE500KeyboardHandler (register reads/writes); KEYI gating "
            "through the whole machine (interrupts disabled/enabled x timers x programs); Rust tick count vs queue growth with FIFO mirroring on/off.",
            "Depth-bounded (5/7 Python, 4/6 Rust), with scripted runs covering the 24-tick repeat delay; the Rust matrix only "
            "exposes the press threshold; KEYI gating is checked at write_fifo_to_memory / _scan_keyboard_per_instruction.",
            "DESIGN.md section 4, C14"),
    "C15": ("model_checking",
            "explicit-state BFS over (address, value) writes and reads in both LCD windows on the real Python HD61202Controller "
            "and Rust LcdController against a reference HD61202 pair; complete enumeration of the VRAM-bit to pixel map",
            "Every history up to the stated depth over all 16 low-nibble decodings of both windows x 15 values (+ reads) is "
            "replayed on both real controllers and compared field by field (on, start line, page, column, VRAM, read values) with "
            "the reference; all 2x8x64x8 VRAM bits are flipped one at a time to establish that each of the 7680 visible pixels has "
            "exactly one owner and a data write changes at most 8 pixels of one display column.",
            "Depth 2 (quick) / 3 (thorough) over the full alphabet, deeper over a reduced one, plus column-wrap scripts; only the "
            "documented windows count as LCD accesses.",
            "DESIGN.md section 4, C15"),
    "C16": ("fault_enumeration",
            "crash-point style enumeration: every distinct reachable machine state of a bounded explicit-state search is a "
            "snapshot point; save -> fresh machine -> load with the real snapshot code, then every continuation up to length K "
            "is run on the original and on the restored machine and compared step by step; cross-loading between the two formats",
            "All reachable states of C12's configurations up to the stated depth are snapshot points (running, halted, powered off, "
            "inside handlers, pending/masked requests, key held, timer about to fire); for each, all continuations over "
            "{step, key press/release, ON} up to length 1-3 are executed on both machines and all program-visible observables "
            "(registers, internal memory, RAM, power, FIFO, key input, timer distances, delivery counts, LCD) must agree. Device level: "
            "the keyboard matrix and the LCD controllers are saved into a fresh object and reloaded at every position of long scripts "
            "and inside a BFS whose alphabet contains the snapshot, judged by the C14/C15 reference models (snapshot = identity). Programs "
            "that touch the LCD, the card window, a RAM expansion and the ROM/read-only windows, a machine built with timer_scale != 1.",
            "Rust bundles are written/read through the verification zip shim (real ZIP container); bookkeeping flags are not "
            "compared directly, only their observable consequences; wall-clock metadata is ignored.",
            "DESIGN.md section 4, C16"),
    "C17": ("exploration",
            "complete comparison of a finite configuration space: all 256 opcode rows and every duplicated constant, "
            "private Rust tables observed behaviourally through LlamaExecutor::execute",
            "The space is finite (256 rows x 5 fields, register/IMEM/vector/address-space constants, 15 PRE bytes, "
            "256 opcodes x 2 prefixes for the single-addressable rule, all view segment pairs) and is compared completely "
            "on every run from the live Python modules and the live Rust statics.",
            "Rust private tables (PRE_MODES, SINGLE_ADDRESSABLE_OPCODES, vector consts) are observed by execution on a "
            "flat bus; Python-to-Rust row mapping follows scripts/generate_llama_opcodes.py except for EMemIMem width "
            "(the script reads the wrong attribute; the table's own `_width` is compared).",
            "DESIGN.md section 4, C17"),
}

PENDING_REASON = "check not built yet (work in progress; the technique applies, see DESIGN.md section 4)"


def main() -> None:
    props = [json.loads(l) for l in open(os.path.join(ROOT, "properties.jsonl"))]
    checks = []
    na = []
    for p in props:
        pid = p["id"]
        if pid in CHECKS:
            cat, tech, text, note, ref = CHECKS[pid]
            checks.append({
                "property_id": pid,
                "quick_cmd": f"./check {pid} --tier quick",
                "thorough_cmd": f"./check {pid} --tier thorough",
                "evidence_file": f"/verif/evidence/{pid}.json",
                "replay_cmd_template": f"./check {pid} --replay {{path}}",
                "engine": "mc",
                "level_claimed": {"category": cat, "text": text, "design_ref": ref},
                "level_note": note,
                "technique": tech,
            })
        else:
            na.append({"property_id": pid, "reason": PENDING_REASON})
    manifest = {
        "version": 1,
        "setup_cmd": "./setup.sh",
        "hooks": {
            "guard": "BINJA_ESR_VERIF",
            "enable": "no hooks are needed: checks import /repo's working tree directly and link the Rust core "
                      "through a shadow manifest; the guard variable is unused and unset",
            "baseline_off_cmd": BASELINE_CMD,
            "source_commits": [],
            "add_only": True,
        },
        "engines": [
            {"name": "mc", "path": "/verif/mc",
             "serves_properties": sorted(CHECKS),
             "kind_free_text": "hand-written explicit-state / exhaustive bounded explorer driving the real Python "
                               "classes and (through /verif/rust/harness) the real Rust core"},
        ],
        "checks": checks,
        "not_applicable": na,
        "notes": "See DESIGN.md. Known findings: known_findings.json. Seeded detection demos: seeded/.",
    }
    with open(os.path.join(ROOT, "MANIFEST.json"), "w") as fh:
        json.dump(manifest, fh, indent=1)
    print(f"MANIFEST.json: {len(checks)} checks, {len(na)} not claimed")


if __name__ == "__main__":
    main()
