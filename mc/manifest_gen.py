"""Regenerates /verif/MANIFEST.json from the table below (keeps it valid at all times).
Usage: /venv/bin/python -m mc.manifest_gen"""
from __future__ import annotations

import json
import os

ROOT = os.path.dirname(os.path.dirname(os.path.abspath(__file__)))

BASELINE_CMD = ("cd /repo && /venv/bin/python -m pytest -ra -q -p no:cacheprovider --timeout=900 "
                "--continue-on-collection-errors")

# id -> (category, technique, level text, level note, design ref)
CHECKS = {
    "C02": ("exploration",
            "exhaustive enumeration of the structural encoding space (prefix x opcode x selector byte) "
            "plus per-position byte sweeps, round-trip oracle on the real decoder/encoder",
            "Every one of the 16 x 256 x 256 structural shapes and every value of every operand position of one "
            "representative per rendered shape is decoded, re-encoded and re-decoded by the real code; the space is "
            "finite and enumerated completely, so within it there is no unsampled input.",
            "Operand bytes past the selector are covered by fills and per-position sweeps, not all 2^40 tails; "
            "binja_test_mocks Encoder/Decoder trusted.",
            "DESIGN.md section 4, C02"),
}

PENDING_REASON = "check not built yet (work in progress; the technique applies, see DESIGN.md section 4)"


def main() -> None:
    props = [json.loads(l) for l in open(os.path.join(ROOT, "properties.jsonl"))]
    checks = []
    na = []
    for p in props:
        pid = p["id"]
        if pid in CHECKS:
            cat, tech, text, note, ref = CHECKS[pid]
            checks.append({
                "property_id": pid,
                "quick_cmd": f"./check {pid} --tier quick",
                "thorough_cmd": f"./check {pid} --tier thorough",
                "evidence_file": f"/verif/evidence/{pid}.json",
                "replay_cmd_template": f"./check {pid} --replay {{path}}",
                "engine": "mc",
                "level_claimed": {"category": cat, "text": text, "design_ref": ref},
                "level_note": note,
                "technique": tech,
            })
        else:
            na.append({"property_id": pid, "reason": PENDING_REASON})
    manifest = {
        "version": 1,
        "setup_cmd": "./setup.sh",
        "hooks": {
            "guard": "BINJA_ESR_VERIF",
            "enable": "no hooks are needed: checks import /repo's working tree directly and link the Rust core "
                      "through a shadow manifest; the guard variable is unused and unset",
            "baseline_off_cmd": BASELINE_CMD,
            "source_commits": [],
            "add_only": True,
        },
        "engines": [
            {"name": "mc", "path": "/verif/mc",
             "serves_properties": sorted(CHECKS),
             "kind_free_text": "hand-written explicit-state / exhaustive bounded explorer driving the real Python "
                               "classes and (through /verif/rust/harness) the real Rust core"},
        ],
        "checks": checks,
        "not_applicable": na,
        "notes": "See DESIGN.md. Known findings: known_findings.json. Seeded detection demos: seeded/.",
    }
    with open(os.path.join(ROOT, "MANIFEST.json"), "w") as fh:
        json.dump(manifest, fh, indent=1)
    print(f"MANIFEST.json: {len(checks)} checks, {len(na)} not claimed")


if __name__ == "__main__":
    main()
