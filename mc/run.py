"""CLI:  ./check <ID> [--tier quick|thorough] [--replay FILE]

Contract (MANIFEST.json): exit 0 = property held on everything explored;
exit 1 + "VIOLATION property=<id> replay=<path>" = violation; exit 2 = the
check itself is broken (harness nondeterminism, invalid evidence, crash).
"""
from __future__ import annotations

import argparse
import importlib
import json
import os
import sys
import traceback

from . import core


def main() -> int:
    ap = argparse.ArgumentParser()
    ap.add_argument("pid")
    ap.add_argument("--tier", default=os.environ.get("VERIF_TIER", "quick"),
                    choices=["quick", "thorough"])
    ap.add_argument("--replay", default=None)
    ap.add_argument("--no-confirm", action="store_true",
                    help="skip fresh-process confirmation of violations")
    args = ap.parse_args()
    pid = args.pid.upper()
    try:
        seed = int(os.environ.get("VERIF_SEED", "0") or 0)
    except ValueError:
        seed = 0
    mod = importlib.import_module(f"mc.checks.{pid.lower()}")
    if args.replay:
        with open(args.replay) as fh:
            art = json.load(fh)
        ctx = core.Ctx(pid, art.get("tier", "quick"), art.get("seed", 0), replaying=True)
        try:
            import inspect
            if "sig" in inspect.signature(mod.replay).parameters:
                still = mod.replay(ctx, art["witness"], sig=art.get("signature"))
            else:
                still = mod.replay(ctx, art["witness"])
        except Exception:
            traceback.print_exc()
            return 2
        if still:
            print(f"replay: violation reproduces: {still}")
            print(f"VIOLATION property={pid} replay={os.path.abspath(args.replay)}")
            return 1
        print("replay: no violation on this tree")
        return 0
    ctx = core.Ctx(pid, args.tier, seed, confirm=not args.no_confirm)
    try:
        mod.run(ctx)
    except core.HarnessError as exc:
        print(f"HARNESS-ERROR property={pid} {exc}")
        return 2
    except Exception:
        traceback.print_exc()
        print(f"HARNESS-ERROR property={pid} unexpected exception in check")
        return 2
    return ctx.finish()


if __name__ == "__main__":
    sys.exit(main())
