"""CLI:  ./check <ID> [--tier quick|thorough] [--replay FILE]

Contract (MANIFEST.json): exit 0 = property held on everything explored;
exit 1 + "VIOLATION property=<id> replay=<path>" = violation; exit 2 = the
check itself is broken (harness nondeterminism, invalid evidence, crash).
"""
from __future__ import annotations

import argparse
import hashlib
import importlib
import json
import os
import sys
import traceback

from . import core


def main() -> int:
    ap = argparse.ArgumentParser()
    ap.add_argument("pid")
    ap.add_argument("--tier", default=os.environ.get("VERIF_TIER", "quick"),
                    choices=["quick", "thorough"])
    ap.add_argument("--replay", default=None)
    ap.add_argument("--no-confirm", action="store_true",
                    help="skip fresh-process confirmation of violations")
    args = ap.parse_args()
    pid = args.pid.upper()
    try:
        seed = int(os.environ.get("VERIF_SEED", "0") or 0)
    except ValueError:
        seed = 0
    mod = importlib.import_module(f"mc.checks.{pid.lower()}")
    if args.replay:
        with open(args.replay) as fh:
            art = json.load(fh)
        ctx = core.Ctx(pid, art.get("tier", "quick"), art.get("seed", 0), replaying=True)
        try:
            import inspect
            if "sig" in inspect.signature(mod.replay).parameters:
                still = mod.replay(ctx, art["witness"], sig=art.get("signature"))
            else:
                still = mod.replay(ctx, art["witness"])
        except Exception:
            traceback.print_exc()
            return 2
        if still:
            print(f"replay: violation reproduces: {still}")
            print(f"VIOLATION property={pid} replay={os.path.abspath(args.replay)}")
            return 1
        print("replay: no violation on this tree")
        return 0
    ctx = core.Ctx(pid, args.tier, seed, confirm=not args.no_confirm)
    try:
        mod.run(ctx)
    except core.HarnessError as exc:
        print(f"HARNESS-ERROR property={pid} {exc}")
        return 2
    except Exception as exc:
        tb = traceback.format_exc()
        traceback.print_exc()
        cause = getattr(exc, "__cause__", None)
        remote = str(cause) if cause is not None else ""
        frames = [l.strip() for l in (tb + remote).splitlines() if l.strip().startswith('File "/repo/')]
        if frames:
            # the code under test raised where the unchanged tree does not (every driver call is one the checks make on every
            # run): reported as a violation with the traceback as its witness, not as a harness error
            os.makedirs(f"/verif/replays/{pid}", exist_ok=True)
            path = f"/verif/replays/{pid}/{hashlib.sha1((tb + remote).encode()).hexdigest()[:10]}.json"
            with open(path, "w") as fh:
                json.dump({"property": pid, "signature": f"{pid}/code-under-test-raises/{type(exc).__name__}", "what": f"{type(exc).__name__}: {exc}",
                           "witness": {"traceback": (tb + remote)[-4000:], "innermost_repo_frame": frames[-1]}, "tier": args.tier, "seed": seed}, fh, indent=1)
            print(f"VIOLATION property={pid} replay={path}")
            return 1
        print(f"HARNESS-ERROR property={pid} unexpected exception in check")
        return 2
    return ctx.finish()


if __name__ == "__main__":
    sys.exit(main())
