"""Builds (from /repo's current working tree) and talks to the Rust harness."""
from __future__ import annotations

import json
import os
import subprocess
from typing import Any, Dict, List, Optional

from .core import ROOT, HarnessError

BIN = os.path.join(ROOT, ".build", "target", "release", "verif-harness")
_built = False


def build() -> None:
    """cargo build --offline (no-op when nothing changed). Raises HarnessError when the build fails."""
    global _built
    if _built or os.environ.get("VERIF_RUST_PREBUILT"):
        return
    r = subprocess.run([os.path.join(ROOT, "rust", "build.sh")], capture_output=True, text=True)
    if r.returncode != 0:
        raise HarnessError("Rust harness build failed:\n" + r.stdout[-3000:] + r.stderr[-2000:])
    _built = True
    os.environ["VERIF_RUST_PREBUILT"] = "1"  # children / replays need not rebuild


def fill_byte(addr: int, k: int) -> int:
    if k == 0:
        return 0
    x = ((addr & 0xFFFFFFFF) * 2654435761 + (k & 0xFF) * 40503) & 0xFFFFFFFFFFFFFFFF
    b = ((x >> 7) ^ (x >> 15) ^ (x >> 23)) & 0xFF
    if (k & 0x100) and 0x100000 <= addr < 0x100100:
        return b & 0x0F
    if (k & 0x200) and 0x100000 <= addr < 0x100100:
        return (((b >> 4) % 10) << 4) | ((b & 0x0F) % 10)
    return b


class Harness:
    def __init__(self) -> None:
        build()
        self.p = subprocess.Popen([BIN], stdin=subprocess.PIPE, stdout=subprocess.PIPE, bufsize=1 << 16)

    def call(self, req: Any) -> Any:
        assert self.p.stdin and self.p.stdout
        self.p.stdin.write(json.dumps(req, separators=(",", ":")).encode() + b"\n")
        self.p.stdin.flush()
        line = self.p.stdout.readline()
        if not line:
            raise HarnessError(f"rust harness died (rc={self.p.poll()}) on request {str(req)[:300]}")
        return json.loads(line)

    def batch(self, reqs: List[Dict[str, Any]]) -> List[Any]:
        if not reqs:
            return []
        return self.call(reqs)

    def close(self) -> None:
        try:
            if self.p.stdin:
                self.p.stdin.close()
            self.p.wait(timeout=5)
        except Exception:  # noqa: BLE001
            self.p.kill()


_H: Optional[Harness] = None
_H_PID: Optional[int] = None


def harness() -> Harness:
    """One harness subprocess per (worker) process."""
    global _H, _H_PID
    if _H is None or _H_PID != os.getpid():
        _H = Harness()
        _H_PID = os.getpid()
    return _H


def fresh_harness() -> Harness:
    return Harness()
