"""Process-parallel exhaustive map. Shards are merged in shard order so the
result is independent of OS scheduling."""
from __future__ import annotations

import multiprocessing as mp
import os
from typing import Any, Callable, Iterable, List

from .core import nproc

_CTX = mp.get_context("fork")


def pmap(func: Callable[[Any], Any], shards: List[Any], procs: int | None = None) -> List[Any]:
    procs = procs or nproc()
    if procs <= 1 or len(shards) <= 1 or os.environ.get("VERIF_SERIAL"):
        return [func(s) for s in shards]
    with _CTX.Pool(processes=min(procs, len(shards))) as pool:
        return pool.map(func, shards, chunksize=1)


def chunks(seq: List[Any], n: int) -> List[List[Any]]:
    """Split seq into n interleaved shards (balanced for structured domains)."""
    n = max(1, min(n, len(seq)))
    return [seq[i::n] for i in range(n)]
