"""Process-parallel exhaustive map. Shards are merged in shard order so the
result is independent of OS scheduling."""
from __future__ import annotations

import multiprocessing as mp
import os
from typing import Any, Callable, Iterable, List

from .core import nproc

_CTX = mp.get_context("fork")


def pmap(func: Callable[[Any], Any], shards: List[Any], procs: int | None = None) -> List[Any]:
    procs = procs or nproc()
    if procs <= 1 or len(shards) <= 1 or os.environ.get("VERIF_SERIAL"):
        return [func(s) for s in shards]
    # maxtasksperchild=1: every shard runs in a freshly forked child, so its process history is
    # exactly (state of the parent at fork time) + (the shard itself) whatever the OS scheduling.
    with _CTX.Pool(processes=min(procs, len(shards)), maxtasksperchild=1) as pool:
        return pool.map(func, shards, chunksize=1)


def in_child(func: Callable[[Any], Any], arg: Any) -> Any:
    """Run func(arg) in a fresh forked child (keeps the parent's interpreter state untouched)."""
    if os.environ.get("VERIF_SERIAL"):
        return func(arg)
    with _CTX.Pool(processes=1, maxtasksperchild=1) as pool:
        return pool.apply(func, (arg,))


def chunks(seq: List[Any], n: int) -> List[List[Any]]:
    """Split seq into n interleaved shards (balanced for structured domains)."""
    n = max(1, min(n, len(seq)))
    return [seq[i::n] for i in range(n)]
