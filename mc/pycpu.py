"""Driver for the repository's Python core (Emulator over a flat recording memory).
Mirrors the Rust harness' `exec` command so results are directly comparable."""
from __future__ import annotations

from typing import Any, Dict, Iterable, List, Optional, Tuple

from binja_test_mocks.eval_llil import Memory
from sc62015.pysc62015.emulator import Emulator, RegisterName, Registers

from .rustbridge import fill_byte

ARCH_REGS = ["A", "B", "BA", "IL", "IH", "I", "X", "Y", "U", "S", "PC", "F", "FC", "FZ"]
SET_ORDER = ["BA", "A", "B", "I", "IL", "IH", "X", "Y", "U", "S", "PC", "F", "FC", "FZ"]
IMEM = 0x100000


class FlatMem:
    __slots__ = ("m", "fill", "written", "reads", "log")

    def __init__(self, mem: Dict[int, int], fill: int) -> None:
        self.m = dict(mem)
        self.fill = fill
        self.written: Dict[int, int] = {}
        self.reads: List[int] = []
        self.log = False

    def rd(self, a: int) -> int:
        a &= 0xFFFFFF
        if self.log:
            self.reads.append(a)
        v = self.m.get(a)
        return v if v is not None else fill_byte(a, self.fill)

    def wr(self, a: int, v: int) -> None:
        a &= 0xFFFFFF
        self.m[a] = v & 0xFF
        self.written[a] = v & 0xFF
        if self.log:
            self.reads.append(-a - 1)  # writes are logged as negative entries (ordered log)


def make(regs: Dict[str, int], mem: Dict[int, int], fill: int = 0, temps: Optional[Dict[int, int]] = None,
         call_sub_level: int = 0) -> Tuple[Emulator, FlatMem]:
    fm = FlatMem(mem, fill)
    emu = Emulator(Memory(fm.rd, fm.wr), reset_on_init=False)
    for n in SET_ORDER:
        if n in regs:
            emu.regs.set(RegisterName[n], regs[n])
    if temps:
        for i, v in temps.items():
            emu.regs.set(RegisterName[f"TEMP{i}"], v)
    emu.regs.call_sub_level = call_sub_level
    return emu, fm


def read_regs(emu: Emulator) -> Dict[str, int]:
    return {n: emu.regs.get(RegisterName[n]) for n in ARCH_REGS}


def run(regs: Dict[str, int], mem: Dict[int, int], fill: int = 0, steps: int = 1, log_reads: bool = False,
        temps: Optional[Dict[int, int]] = None, trace: bool = False, emu_fm=None, ignore_power: bool = False) -> Dict[str, Any]:
    """Execute `steps` instructions starting at regs['PC']; same result shape as the Rust `exec` command."""
    emu, fm = emu_fm if emu_fm is not None else make(regs, mem, fill, temps)
    lens: List[int] = []
    err = None
    tr = []
    for _ in range(steps):
        if emu.state.halted and not ignore_power:
            break
        pc = emu.regs.get(RegisterName.PC)
        fm.log = log_reads
        try:
            info = emu.execute_instruction(pc)
        except Exception as exc:  # noqa: BLE001
            err = f"{type(exc).__name__}: {exc}"
            break
        finally:
            fm.log = False
        lens.append(int(info.instruction_info.length or 0))
        if trace:
            tr.append(read_regs(emu))
    out = {
        "regs": read_regs(emu),
        "lens": lens,
        "writes": sorted([a, v] for a, v in fm.written.items()),
        "power": "halted" if emu.state.halted else "running",
        "err": err,
    }
    out["regs"]["IMR"] = fm.rd(IMEM + 0xFB)
    if log_reads:
        out["reads"] = list(fm.reads)
    if trace:
        out["trace"] = tr
    return out
