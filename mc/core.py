"""Shared plumbing: violations, known findings, replay artefacts, evidence."""
from __future__ import annotations

import fnmatch
import hashlib
import json
import os
import subprocess
import sys
import time
from typing import Any, Dict, List, Optional

ROOT = os.path.dirname(os.path.dirname(os.path.abspath(__file__)))
EVIDENCE_DIR = os.path.join(ROOT, "evidence")
REPLAY_DIR = os.path.join(ROOT, "replays")
FINDINGS_FILE = os.path.join(ROOT, "known_findings.json")
EVIDENCE_SCHEMA = "/root/.vp/EVIDENCE.schema.json"
MAX_REPORTED_SIGNATURES = 40


class HarnessError(RuntimeError):
    pass


def nproc() -> int:
    try:
        n = len(os.sched_getaffinity(0))
    except Exception:
        n = os.cpu_count() or 1
    return max(1, min(16, n))


def jsonable(x: Any) -> Any:
    if isinstance(x, (bytes, bytearray)):
        return bytes(x).hex()
    if isinstance(x, dict):
        return {str(k): jsonable(v) for k, v in x.items()}
    if isinstance(x, (list, tuple, set, frozenset)):
        return [jsonable(v) for v in (sorted(x, key=repr) if isinstance(x, (set, frozenset)) else x)]
    if isinstance(x, (int, float, str, bool)) or x is None:
        return x
    return repr(x)


class VB:
    """Per-shard violation bucket: counts everything, keeps up to 3 witnesses per signature."""

    def __init__(self) -> None:
        self.d: Dict[str, List[Any]] = {}

    def add(self, sig: str, what: str, witness: Dict[str, Any]) -> None:
        ent = self.d.setdefault(sig, [0, []])
        ent[0] += 1
        if len(ent[1]) < 3:
            ent[1].append((what, jsonable(witness() if callable(witness) else witness)))

    def __len__(self) -> int:
        return sum(e[0] for e in self.d.values())


class Ctx:
    def __init__(self, pid: str, tier: str, seed: int, replaying: bool = False,
                 confirm: bool = True) -> None:
        self.pid = pid
        self.tier = tier
        self.seed = seed
        self.thorough = tier == "thorough"
        self.replaying = replaying
        self.confirm = confirm
        self.t0 = time.time()
        self.level = "exploration"
        self.coverage: Dict[str, Any] = {}
        self.assumptions: List[str] = []
        # signature -> list of (what, witness)
        self.found: Dict[str, List[Any]] = {}
        self.found_count: Dict[str, int] = {}
        self.notes: List[str] = []

    # -- recording -------------------------------------------------------
    def violation(self, signature: str, what: str, witness: Dict[str, Any]) -> None:
        self.found_count[signature] = self.found_count.get(signature, 0) + 1
        lst = self.found.setdefault(signature, [])
        if len(lst) < 3:
            lst.append((what, jsonable(witness)))

    def merge_bucket(self, vb) -> None:
        d = vb.d if isinstance(vb, VB) else vb
        for sig, (cnt, wl) in d.items():
            self.found_count[sig] = self.found_count.get(sig, 0) + cnt
            lst = self.found.setdefault(sig, [])
            for w in wl:
                if len(lst) < 3:
                    lst.append(tuple(w))

    def merge_violations(self, items) -> None:
        """items: iterable of (signature, what, witness) from worker shards."""
        if isinstance(items, (VB, dict)):
            self.merge_bucket(items)
            return
        for sig, what, wit in items:
            self.violation(sig, what, wit)

    def log(self, msg: str) -> None:
        print(f"[{self.pid} {time.time() - self.t0:6.1f}s] {msg}", flush=True)

    def add(self, key: str, n: int = 1) -> None:
        self.coverage[key] = self.coverage.get(key, 0) + n

    # -- known findings --------------------------------------------------
    def _known(self) -> List[Dict[str, Any]]:
        try:
            with open(FINDINGS_FILE) as fh:
                data = json.load(fh)
        except FileNotFoundError:
            return []
        return [f for f in data.get("findings", []) if f.get("property") == self.pid]

    # -- finishing -------------------------------------------------------
    def finish(self) -> int:
        known = self._known()
        open_known = [f for f in known if f.get("status") == "open"]
        new: List[str] = []
        seen_known: Dict[str, int] = {}
        for sig in sorted(self.found):
            hit = None
            for f in open_known:
                if sig in f.get("signatures", []) or any(fnmatch.fnmatchcase(sig, pat) for pat in f.get("signatures", []) if any(ch in pat for ch in "*?[")):
                    hit = f
                    break
            if hit is not None:
                seen_known[hit["id"]] = seen_known.get(hit["id"], 0) + self.found_count[sig]
            else:
                new.append(sig)
        for f in open_known:
            if f["id"] in seen_known:
                print(f"KNOWN-FINDING: property={self.pid} {f['id']} {f['what']} "
                      f"(re-observed {seen_known[f['id']]}x)")
        dump = os.environ.get("VERIF_DUMP_SIGS")
        if dump:
            with open(dump, "w") as fh:
                json.dump({sig: {"count": self.found_count[sig], "what": self.found[sig][0][0],
                                 "witness": self.found[sig][0][1]} for sig in sorted(self.found)}, fh, indent=1)
        rc = 0
        replay_paths: List[str] = []
        rdir = os.path.join(REPLAY_DIR, self.pid)
        if os.path.isdir(rdir):
            for fn in os.listdir(rdir):
                if fn.endswith(".json"):
                    os.unlink(os.path.join(rdir, fn))
        if new:
            os.makedirs(os.path.join(REPLAY_DIR, self.pid), exist_ok=True)
            for sig in new[:MAX_REPORTED_SIGNATURES]:
                what, witness = self.found[sig][0]
                h = hashlib.sha1(sig.encode()).hexdigest()[:10]
                path = os.path.join(REPLAY_DIR, self.pid, f"{h}.json")
                with open(path, "w") as fh:
                    json.dump({"property": self.pid, "tier": self.tier, "seed": self.seed,
                               "signature": sig, "what": what, "count": self.found_count[sig],
                               "witness": witness}, fh, indent=1, sort_keys=True)
                replay_paths.append(path)
            # fresh-process confirmation (determinism guard)
            if self.confirm:
                for path in replay_paths[:6]:
                    r = subprocess.run([os.path.join(ROOT, "check"), self.pid, "--replay", path],
                                       capture_output=True, text=True)
                    if r.returncode != 1:
                        print(r.stdout[-2000:])
                        print(r.stderr[-2000:])
                        print(f"HARNESS-NONDETERMINISM property={self.pid} replay={path} "
                              f"did not reproduce in a fresh process (rc={r.returncode})")
                        self._write_evidence(len(new))
                        return 2
            for sig, path in zip(new, replay_paths):
                what, _ = self.found[sig][0]
                print(f"  signature={sig} count={self.found_count[sig]} :: {what}")
                print(f"VIOLATION property={self.pid} replay={path}")
            if len(new) > len(replay_paths):
                print(f"  (+{len(new) - len(replay_paths)} more signatures not written)")
            rc = 1
        ok = self._write_evidence(len(new))
        if not ok:
            return 2
        self.log(f"done rc={rc} new_signatures={len(new)} known={len(seen_known)} "
                 f"coverage={ {k: v for k, v in self.coverage.items() if isinstance(v, (int, bool))} }")
        return rc

    def _write_evidence(self, nviol: int) -> bool:
        os.makedirs(EVIDENCE_DIR, exist_ok=True)
        cov = jsonable(self.coverage)
        if "samples" not in cov or not cov["samples"]:
            cov["samples"] = ["(no samples recorded)"]
        ev = {
            "property_id": self.pid,
            "tier": self.tier,
            "seed": int(self.seed),
            "level": self.level,
            "coverage": cov,
            "assumptions": self.assumptions,
            "wall_s": round(time.time() - self.t0, 3),
            "violations": nviol,
        }
        path = os.path.join(EVIDENCE_DIR, f"{self.pid}.json")
        tmp = path + ".tmp"
        with open(tmp, "w") as fh:
            json.dump(ev, fh, indent=1, sort_keys=True)
        os.replace(tmp, path)
        # validate with the tooling venv's jsonschema
        code = ("import json,sys,jsonschema;"
                "jsonschema.validate(json.load(open(sys.argv[1])),json.load(open(sys.argv[2])))")
        try:
            r = subprocess.run(["python3-vt", "-c", code, path, EVIDENCE_SCHEMA],
                               capture_output=True, text=True, timeout=60)
        except (FileNotFoundError, subprocess.TimeoutExpired):
            return True  # validator unavailable: do not fail the check for that
        if r.returncode != 0:
            print(r.stderr[-1500:])
            print(f"HARNESS-ERROR property={self.pid} evidence file does not validate")
            return False
        return True
