"""Uniform drivers for the two machine models: Python PCE500Emulator and Rust CoreRuntime (via the harness).

A machine is always (re)built from a configuration and an event history; nothing is copied between
branches.  Events: ("step",) ("press_on",) ("release_on",) ("press", key) ("release", key) ("inject", key, release)
("save", path) ("load", path).
"""
from __future__ import annotations

from typing import Any, Dict, List, Optional, Tuple

from . import rustbridge as rb

ROM_BASE = 0xC0000
MAIN = 0xC0000
HANDLER = 0xC0100
STACK = 0xBF000
IRQ_VEC = 0xFFFFA
RST_VEC = 0xFFFFD
IMEM = 0x100000
KEYS = {"KEY_Q": (0, 1), "KEY_E": (1, 1), "KEY_A": (0, 3)}


def rom_patches(main: bytes, handler: bytes, extra: Optional[Dict[int, bytes]] = None) -> Dict[int, bytes]:
    p = {MAIN: main, HANDLER: handler,
         IRQ_VEC: HANDLER.to_bytes(3, "little"), RST_VEC: MAIN.to_bytes(3, "little")}
    if extra:
        p.update(extra)
    return p


_ROM_TEMPLATE = bytes(0x40000)


def default_cfg(main: bytes, handler: bytes, imr: int = 0, timer=(False, 0, 0), isr: int = 0, kb_irq: bool = True,
                regs: Optional[Dict[str, int]] = None, extra_rom=None, imem=None, kb_press: Optional[int] = None,
                kol: Optional[int] = None) -> Dict[str, Any]:
    r = {"PC": MAIN, "S": STACK, "U": STACK - 0x400, "BA": 0x1234, "I": 0x0003, "X": 0xB8100, "Y": 0xB8200, "F": 0}
    if regs:
        r.update(regs)
    im = {0xFB: imr, 0xFC: isr}
    if imem:
        im.update(imem)
    return {"rom": rom_patches(main, handler, extra_rom), "regs": r, "imem": im, "timer": tuple(timer), "kb_irq": kb_irq,
            "kb_press": kb_press, "kol": kol}


OBS_MEM = [(STACK - 48, 48), (0xB8100, 8), (0xB8200, 8), (0x4FFF8, 8), (0x57FF8, 8), (0xC0C00, 2), (0x01000, 2)]


# ---- Python ------------------------------------------------------------------------------------

class PyMachine:
    def __init__(self, cfg: Dict[str, Any]) -> None:
        from pce500.emulator import PCE500Emulator
        from pce500.scheduler import TimerScheduler
        from sc62015.pysc62015.emulator import RegisterName
        self.RN = RegisterName
        self.obs_mem = [tuple(x) for x in cfg.get("obs_mem", OBS_MEM)]
        emu = PCE500Emulator(save_lcd_on_exit=False, **({"timer_scale": cfg["timer_scale"]} if cfg.get("timer_scale") else {}))
        rom = bytearray(_ROM_TEMPLATE)
        for addr, data in cfg["rom"].items():
            rom[addr - ROM_BASE: addr - ROM_BASE + len(data)] = data
        emu.load_rom(bytes(rom))
        if cfg.get("expand_ram"):
            emu.expand_ram(*cfg["expand_ram"])
        for n in ("BA", "I", "X", "Y", "U", "S", "PC", "F"):
            if n in cfg["regs"]:
                emu.cpu.regs.set(RegisterName[n], cfg["regs"][n])
        for off, v in cfg["imem"].items():
            emu.memory.write_byte(IMEM + off, v)
        en, mti, sti = cfg["timer"]
        emu._scheduler = TimerScheduler(mti_period=mti, sti_period=sti, enabled=bool(en))
        try:
            emu.peripherals.scheduler = emu._scheduler  # keep helper objects pointing at the same scheduler
        except Exception:  # noqa: BLE001
            pass
        emu._kb_irq_enabled = bool(cfg.get("kb_irq", True))
        if cfg.get("kb_press"):
            emu.keyboard._matrix.press_threshold = cfg["kb_press"]
        if cfg.get("kol") is not None:
            emu.memory.write_byte(IMEM + 0xF0, cfg["kol"])
        self.emu = emu
        self.cfg = cfg

    def apply(self, ev: Tuple) -> Dict[str, Any]:
        e = self.emu
        k = ev[0]
        out: Dict[str, Any] = {}
        try:
            if k == "step":
                e.step()
            elif k == "press_on":
                e.press_key("KEY_ON")
            elif k == "release_on":
                e.release_key("KEY_ON")
            elif k == "press":
                e.press_key(ev[1])
            elif k == "release":
                e.release_key(ev[1])
            elif k == "inject":
                e.keyboard._matrix.inject_event(ev[1], release=bool(ev[2]))
            elif k == "save":
                e.save_snapshot(ev[1])
            elif k in ("load", "load_dirty"):
                import contextlib
                import io
                fresh = PyMachine(self.cfg)
                if k == "load_dirty":
                    # a machine with a past of its own: it ran another firmware loop that stores to IMR/ISR before it is told to load
                    dcfg = dict(self.cfg)
                    dcfg["rom"] = rom_patches(bytes.fromhex("ccfb55ccfc0300001309"), bytes.fromhex("0001"))
                    fresh = PyMachine(dcfg)
                    for _ in range(5):
                        fresh.emu.step()
                with contextlib.redirect_stdout(io.StringIO()):   # load_snapshot prints a backend-mismatch note for Rust bundles
                    fresh.emu.load_snapshot(ev[1])
                self.emu = fresh.emu
        except Exception as exc:  # noqa: BLE001
            out["err"] = f"{type(exc).__name__}: {exc}"
        return out

    def obs(self, lcd: bool = False) -> Dict[str, Any]:
        e = self.emu
        RN = self.RN
        regs = {n: e.cpu.regs.get(RN[n]) for n in ("A", "B", "BA", "IL", "IH", "I", "X", "Y", "U", "S", "PC", "F", "FC", "FZ")}
        imem = bytes(e.memory.get_internal_memory_bytes())
        o = {
            "regs": regs,
            "imem": imem,
            "power": "halted" if e.cpu.state.halted else "running",
            "cycles": int(e.cycle_count),
            "instructions": int(e.instruction_count),
            "irq_total": int(e.irq_counts.get("total", 0)),
            "in_interrupt": bool(e._in_interrupt),
            "irq_pending": bool(e._irq_pending),
            "key_latched": bool(e._key_irq_latched),
            "next_mti": int(e._scheduler.next_mti), "next_sti": int(e._scheduler.next_sti),
            "timer_enabled": bool(e._scheduler.enabled),
            "mem": [(a, bytes(e.memory.read_byte(a + i) for i in range(n))) for a, n in self.obs_mem],
            "fifo": list(e.keyboard.fifo_snapshot()),
            "kil": int(e.keyboard._matrix._compute_kil()),
        }
        if lcd:
            snap = e.lcd.get_snapshot()
            o["lcd"] = tuple((c.on, c.start_line, c.page, c.y_address, c.vram) for c in snap.chips)
        return o


def run_py(cfg, hist, obs_each: bool = True, lcd: bool = False) -> List[Dict[str, Any]]:
    m = PyMachine(cfg)
    out = []
    for ev in hist:
        r = m.apply(ev)
        if obs_each:
            o = m.obs(lcd)
            o.update(r)
            out.append(o)
    if not obs_each:
        out.append(m.obs(lcd))
    return out


# ---- Rust ----------------------------------------------------------------------------------------

def rs_cfg(cfg) -> Dict[str, Any]:
    c: Dict[str, Any] = {
        "rom": [[a, d.hex()] for a, d in cfg["rom"].items()],
        "pce500_map": True,
        "regs": dict(cfg["regs"]),
        "imem": [[o, v] for o, v in cfg["imem"].items()],
        "timer": [bool(cfg["timer"][0]), int(cfg["timer"][1]), int(cfg["timer"][2])],
        "kb_irq": bool(cfg.get("kb_irq", True)),
    }
    if cfg.get("kb_press"):
        c["kb_press"] = cfg["kb_press"]
    if cfg.get("host_port"):
        c["host_port"] = cfg["host_port"]
    if cfg.get("kol") is not None:
        c["kb_write"] = [[0xF0, cfg["kol"]]]
    return c


def code_of(key: str) -> int:
    c, r = KEYS[key]
    return (c << 3) | r


def rs_req(cfg, hist, obs_each: bool = True, lcd: bool = False) -> Dict[str, Any]:
    ops = []
    for ev in hist:
        k = ev[0]
        if k == "step":
            ops.append({"step": ev[1] if len(ev) > 1 else 1})
        elif k == "press_on":
            ops.append({"press_on": 1})
        elif k == "release_on":
            ops.append({"release_on": 1})
        elif k == "press":
            ops.append({"press": code_of(ev[1])})
        elif k == "release":
            ops.append({"release": code_of(ev[1])})
        elif k == "inject":
            ops.append({"inject": [code_of(ev[1]), 1 if ev[2] else 0]})
        elif k == "save":
            ops.append({"save": ev[1]})
        elif k == "load":
            ops.append({"load": ev[1]})
        elif k == "async":
            ops.append({"async_run": [ev[1], ev[2]]})
    if not obs_each:
        ops.append({"obs": 1})
    return {"cmd": "machine", "cfg": rs_cfg(cfg), "obs": {"mem": [list(x) for x in cfg.get("obs_mem", OBS_MEM)], "lcd": lcd}, "obs_each": obs_each,
            "script": ops}


def rs_unpack(resp) -> List[Dict[str, Any]]:
    out = []
    for item in resp["out"]:
        o = item.get("obs")
        if o is None:
            continue
        t = o["timer"]
        d = {
            "regs": o["regs"],
            "imem": bytes.fromhex(o["imem"]),
            "power": o["power"],
            "cycles": o["cycles"],
            "instructions": o["instructions"],
            "irq_total": t["irq_total"],
            "in_interrupt": t["in_interrupt"],
            "irq_pending": t["irq_pending"],
            "key_latched": t["key_irq_latched"],
            "delivered": len(t["delivered_masks"]),
            "next_mti": t["next_mti"], "next_sti": t["next_sti"], "timer_enabled": t["enabled"],
            "mem": [(a, bytes.fromhex(h)) for a, h in o.get("mem", [])],
            "fifo": o.get("kbd", {}).get("fifo", []),
            "kil": o.get("kbd", {}).get("kil", 0),
        }
        if "lcd" in o:
            d["lcd"] = (o["lcd"]["meta"]["chips"], o["lcd"]["vram"])
        if "err" in item:
            d["err"] = item["err"]
        if "async" in item:
            d["async"] = item["async"]
        out.append(d)
    return out


def run_rs(h, cfg, hist, obs_each: bool = True, lcd: bool = False) -> List[Dict[str, Any]]:
    return rs_unpack(h.call(rs_req(cfg, hist, obs_each, lcd)))
