//! Minimal stand-in for the parts of `zip` 0.6 that sc62015-core uses:
//! ZipWriter::{new,start_file,finish} + Write, ZipArchive::{new,by_name} + Read,
//! FileOptions::default().compression_method(..), CompressionMethod, result::ZipError.
//! Real ZIP container (interoperates with Python's zipfile): stored / deflate.
use std::io::{self, Cursor, Read, Seek, SeekFrom, Write};

#[derive(Clone, Copy, Debug, PartialEq, Eq)]
pub enum CompressionMethod {
    Stored,
    Deflated,
}

pub mod result {
    use std::fmt;
    use std::io;

    #[derive(Debug)]
    pub enum ZipError {
        Io(io::Error),
        InvalidArchive(&'static str),
        UnsupportedArchive(&'static str),
        FileNotFound,
    }
    impl fmt::Display for ZipError {
        fn fmt(&self, f: &mut fmt::Formatter<'_>) -> fmt::Result {
            match self {
                ZipError::Io(e) => write!(f, "io error: {e}"),
                ZipError::InvalidArchive(s) => write!(f, "invalid Zip archive: {s}"),
                ZipError::UnsupportedArchive(s) => write!(f, "unsupported Zip archive: {s}"),
                ZipError::FileNotFound => write!(f, "specified file not found in archive"),
            }
        }
    }
    impl std::error::Error for ZipError {}
    impl From<io::Error> for ZipError {
        fn from(e: io::Error) -> Self {
            ZipError::Io(e)
        }
    }
    pub type ZipResult<T> = Result<T, ZipError>;
}

use result::{ZipError, ZipResult};

pub mod write {
    use super::CompressionMethod;

    #[derive(Clone, Copy, Debug)]
    pub struct FileOptions {
        pub(crate) method: CompressionMethod,
    }
    impl Default for FileOptions {
        fn default() -> Self {
            FileOptions { method: CompressionMethod::Deflated }
        }
    }
    impl FileOptions {
        pub fn compression_method(mut self, m: CompressionMethod) -> Self {
            self.method = m;
            self
        }
    }
    pub use super::ZipWriter;
}

pub mod read {
    pub use super::{ZipArchive, ZipFile};
}

struct Entry {
    name: String,
    method: u16,
    crc: u32,
    csize: u32,
    usize_: u32,
    offset: u32,
}

pub struct ZipWriter<W: Write + Seek> {
    inner: Option<W>,
    pos: u64,
    entries: Vec<Entry>,
    cur: Option<(String, CompressionMethod, Vec<u8>)>,
}

impl<W: Write + Seek> ZipWriter<W> {
    pub fn new(inner: W) -> Self {
        ZipWriter { inner: Some(inner), pos: 0, entries: Vec::new(), cur: None }
    }

    fn flush_entry(&mut self) -> ZipResult<()> {
        if let Some((name, method, data)) = self.cur.take() {
            let crc = crc32fast::hash(&data);
            let (mcode, payload) = match method {
                CompressionMethod::Stored => (0u16, data.clone()),
                CompressionMethod::Deflated => (8u16, miniz_oxide::deflate::compress_to_vec(&data, 1)),
            };
            let w = self.inner.as_mut().ok_or(ZipError::InvalidArchive("writer finished"))?;
            let offset = self.pos as u32;
            let mut h = Vec::with_capacity(30 + name.len());
            h.extend_from_slice(&0x04034b50u32.to_le_bytes());
            h.extend_from_slice(&20u16.to_le_bytes());
            h.extend_from_slice(&0u16.to_le_bytes());
            h.extend_from_slice(&mcode.to_le_bytes());
            h.extend_from_slice(&0u16.to_le_bytes()); // time
            h.extend_from_slice(&0x21u16.to_le_bytes()); // date 1980-01-01
            h.extend_from_slice(&crc.to_le_bytes());
            h.extend_from_slice(&(payload.len() as u32).to_le_bytes());
            h.extend_from_slice(&(data.len() as u32).to_le_bytes());
            h.extend_from_slice(&(name.len() as u16).to_le_bytes());
            h.extend_from_slice(&0u16.to_le_bytes());
            h.extend_from_slice(name.as_bytes());
            w.write_all(&h)?;
            w.write_all(&payload)?;
            self.pos += (h.len() + payload.len()) as u64;
            self.entries.push(Entry {
                name,
                method: mcode,
                crc,
                csize: payload.len() as u32,
                usize_: data.len() as u32,
                offset,
            });
        }
        Ok(())
    }

    pub fn start_file<S: Into<String>>(&mut self, name: S, options: write::FileOptions) -> ZipResult<()> {
        self.flush_entry()?;
        self.cur = Some((name.into(), options.method, Vec::new()));
        Ok(())
    }

    pub fn finish(&mut self) -> ZipResult<W> {
        self.flush_entry()?;
        let cd_start = self.pos as u32;
        let mut cd = Vec::new();
        for e in &self.entries {
            cd.extend_from_slice(&0x02014b50u32.to_le_bytes());
            cd.extend_from_slice(&20u16.to_le_bytes());
            cd.extend_from_slice(&20u16.to_le_bytes());
            cd.extend_from_slice(&0u16.to_le_bytes());
            cd.extend_from_slice(&e.method.to_le_bytes());
            cd.extend_from_slice(&0u16.to_le_bytes());
            cd.extend_from_slice(&0x21u16.to_le_bytes());
            cd.extend_from_slice(&e.crc.to_le_bytes());
            cd.extend_from_slice(&e.csize.to_le_bytes());
            cd.extend_from_slice(&e.usize_.to_le_bytes());
            cd.extend_from_slice(&(e.name.len() as u16).to_le_bytes());
            cd.extend_from_slice(&0u16.to_le_bytes());
            cd.extend_from_slice(&0u16.to_le_bytes());
            cd.extend_from_slice(&0u16.to_le_bytes());
            cd.extend_from_slice(&0u16.to_le_bytes());
            cd.extend_from_slice(&0u32.to_le_bytes());
            cd.extend_from_slice(&e.offset.to_le_bytes());
            cd.extend_from_slice(e.name.as_bytes());
        }
        let n = self.entries.len() as u16;
        let cd_len = cd.len() as u32;
        cd.extend_from_slice(&0x06054b50u32.to_le_bytes());
        cd.extend_from_slice(&0u16.to_le_bytes());
        cd.extend_from_slice(&0u16.to_le_bytes());
        cd.extend_from_slice(&n.to_le_bytes());
        cd.extend_from_slice(&n.to_le_bytes());
        cd.extend_from_slice(&cd_len.to_le_bytes());
        cd.extend_from_slice(&cd_start.to_le_bytes());
        cd.extend_from_slice(&0u16.to_le_bytes());
        let mut w = self.inner.take().ok_or(ZipError::InvalidArchive("writer finished"))?;
        w.write_all(&cd)?;
        w.flush()?;
        Ok(w)
    }
}

impl<W: Write + Seek> Write for ZipWriter<W> {
    fn write(&mut self, buf: &[u8]) -> io::Result<usize> {
        match self.cur.as_mut() {
            Some((_, _, data)) => {
                data.extend_from_slice(buf);
                Ok(buf.len())
            }
            None => Err(io::Error::new(io::ErrorKind::Other, "no file has been started")),
        }
    }
    fn flush(&mut self) -> io::Result<()> {
        Ok(())
    }
}

pub struct ZipArchive<R> {
    _reader: R,
    data: Vec<u8>,
    entries: Vec<Entry>,
}

pub struct ZipFile<'a> {
    cur: Cursor<Vec<u8>>,
    _m: std::marker::PhantomData<&'a ()>,
}

impl<'a> Read for ZipFile<'a> {
    fn read(&mut self, buf: &mut [u8]) -> io::Result<usize> {
        self.cur.read(buf)
    }
}

impl<'a> ZipFile<'a> {
    pub fn size(&self) -> u64 {
        self.cur.get_ref().len() as u64
    }
}

fn u16_at(d: &[u8], o: usize) -> u16 {
    u16::from_le_bytes([d[o], d[o + 1]])
}
fn u32_at(d: &[u8], o: usize) -> u32 {
    u32::from_le_bytes([d[o], d[o + 1], d[o + 2], d[o + 3]])
}

impl<R: Read + Seek> ZipArchive<R> {
    pub fn new(mut reader: R) -> ZipResult<Self> {
        let mut data = Vec::new();
        reader.seek(SeekFrom::Start(0))?;
        reader.read_to_end(&mut data)?;
        if data.len() < 22 {
            return Err(ZipError::InvalidArchive("too short"));
        }
        let mut eocd = None;
        let lo = data.len().saturating_sub(22 + 65536);
        let mut i = data.len() - 22;
        loop {
            if u32_at(&data, i) == 0x06054b50 {
                eocd = Some(i);
                break;
            }
            if i == lo {
                break;
            }
            i -= 1;
        }
        let eocd = eocd.ok_or(ZipError::InvalidArchive("no end of central directory"))?;
        let n = u16_at(&data, eocd + 10) as usize;
        let cd_off = u32_at(&data, eocd + 16) as usize;
        let mut entries = Vec::new();
        let mut p = cd_off;
        for _ in 0..n {
            if p + 46 > data.len() || u32_at(&data, p) != 0x02014b50 {
                return Err(ZipError::InvalidArchive("bad central directory"));
            }
            let method = u16_at(&data, p + 10);
            let crc = u32_at(&data, p + 16);
            let csize = u32_at(&data, p + 20);
            let usize_ = u32_at(&data, p + 24);
            let nl = u16_at(&data, p + 28) as usize;
            let el = u16_at(&data, p + 30) as usize;
            let cl = u16_at(&data, p + 32) as usize;
            let offset = u32_at(&data, p + 42);
            let name = String::from_utf8_lossy(&data[p + 46..p + 46 + nl]).to_string();
            entries.push(Entry { name, method, crc, csize, usize_, offset });
            p += 46 + nl + el + cl;
        }
        Ok(ZipArchive { _reader: reader, data, entries })
    }

    pub fn len(&self) -> usize {
        self.entries.len()
    }

    pub fn is_empty(&self) -> bool {
        self.entries.is_empty()
    }

    pub fn by_name<'a>(&'a mut self, name: &str) -> ZipResult<ZipFile<'a>> {
        let e = self.entries.iter().find(|e| e.name == name).ok_or(ZipError::FileNotFound)?;
        let o = e.offset as usize;
        if o + 30 > self.data.len() || u32_at(&self.data, o) != 0x04034b50 {
            return Err(ZipError::InvalidArchive("bad local header"));
        }
        let nl = u16_at(&self.data, o + 26) as usize;
        let el = u16_at(&self.data, o + 28) as usize;
        let start = o + 30 + nl + el;
        let end = start + e.csize as usize;
        if end > self.data.len() {
            return Err(ZipError::InvalidArchive("truncated entry"));
        }
        let raw = &self.data[start..end];
        let out = match e.method {
            0 => raw.to_vec(),
            8 => miniz_oxide::inflate::decompress_to_vec(raw)
                .map_err(|_| ZipError::InvalidArchive("inflate failed"))?,
            _ => return Err(ZipError::UnsupportedArchive("compression method")),
        };
        if out.len() != e.usize_ as usize || crc32fast::hash(&out) != e.crc {
            return Err(ZipError::InvalidArchive("size/crc mismatch"));
        }
        Ok(ZipFile { cur: Cursor::new(out), _m: std::marker::PhantomData })
    }
}
