#!/bin/bash
# Builds the verification harness against /repo's current Rust sources (offline).
set -e
HERE="$(cd "$(dirname "$0")" && pwd)"
REPO_SRC="${VERIF_RUST_SRC:-/repo/sc62015/core/src}"
ln -sfn "$REPO_SRC" "$HERE/shadow-core/src"
mkdir -p "$HERE/../.build"
cd "$HERE/harness"
export CARGO_HOME="$HERE/../.build/cargo-home"
mkdir -p "$CARGO_HOME"
export CARGO_TARGET_DIR="${VERIF_TARGET_DIR:-$HERE/../.build/target}"
export CARGO_NET_OFFLINE=true
# cargo reads .cargo/config.toml from the cwd upwards: /verif/rust/.cargo/config.toml
LOG="$HERE/../.build/cargo-build.log"
if ! cargo build --release --offline -q >"$LOG" 2>&1; then
  grep -n "^error" -A12 "$LOG" | head -80
  echo "RUST-BUILD-FAILED (full log: $LOG)"
  exit 3
fi
test -x "$CARGO_TARGET_DIR/release/verif-harness"
