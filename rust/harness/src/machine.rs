//! machine: script on a fresh CoreRuntime (the real PC-E500 runtime of the Rust core).
use serde_json::{json, Map, Value};
use std::cell::RefCell;
use std::rc::Rc;

use sc62015_core::llama::opcodes::RegName;
use sc62015_core::timer::TimerContext;
use sc62015_core::{AsyncRuntimeRunner, CoreRuntime};

use crate::devices::{configure_memory, hex, lcd_obs, u, unhex};
use crate::{power_name, reg_by_name, regs_json};

fn new_runtime(cfg: Option<&Value>) -> CoreRuntime {
    let mut rt = CoreRuntime::new();
    if let Some(cfg) = cfg {
        configure_memory(&mut rt.memory, cfg);
        if let Some(Value::Array(roms)) = cfg.get("rom") {
            // [[start, hex], ...] written into external memory (before read-only ranges matter: raw writes)
            for r in roms {
                let start = u(r, 0) as usize;
                let data = unhex(r.as_array().and_then(|a| a.get(1)).and_then(|x| x.as_str()).unwrap_or(""));
                rt.memory.write_external_slice(start, &data);
            }
        }
        if let Some(t) = cfg.get("timer") {
            *rt.timer = TimerContext::new(t[0].as_bool().unwrap_or(false), t[1].as_i64().unwrap_or(0) as i32,
                                          t[2].as_i64().unwrap_or(0) as i32);
        }
        if let Some(b) = cfg.get("kb_irq").and_then(|v| v.as_bool()) {
            rt.timer.set_keyboard_irq_enabled(b);
        }
        if let Some(Value::Object(m)) = cfg.get("regs") {
            for (k, v) in m {
                if let Some(r) = reg_by_name(k) {
                    rt.state.set_reg(r, v.as_u64().unwrap_or(0) as u32);
                }
            }
        }
        if let Some(Value::Array(im)) = cfg.get("imem") {
            for p in im {
                rt.memory.write_internal_byte(u(p, 0) as u32, u(p, 1) as u8);
            }
        }
        if let Some(Value::Array(ws)) = cfg.get("kb_write") {
            let r = &mut rt;
            if let Some(kb) = r.keyboard.as_mut() {
                for w in ws {
                    kb.handle_write(u(w, 0) as u32, u(w, 1) as u8, &mut r.memory);
                }
            }
        }
        if let Some(hp) = cfg.get("host_port") {
            // a host-backed window (python_ranges + host_read): the host answers the k-th read with seq[k mod len],
            // whatever the address - a data port whose value changes on its own between two reads
            let start = u(&hp["range"], 0) as u32;
            let end = u(&hp["range"], 1) as u32;
            rt.memory.set_python_ranges(vec![(start, end)]);
            let seq: Vec<u8> = hp["seq"].as_array().map(|a| a.iter().map(|x| x.as_u64().unwrap_or(0) as u8).collect())
                .unwrap_or_else(|| vec![0]);
            let mut k = 0usize;
            rt.set_host_read(move |_addr| {
                let v = seq[k % seq.len()];
                k += 1;
                Some(v)
            });
        }
        if let Some(p) = cfg.get("kb_press").and_then(|v| v.as_u64()) {
            if let Some(kb) = rt.keyboard.as_mut() {
                kb.set_press_threshold(p as u8);
            }
        }
    }
    rt
}

fn observe(rt: &mut CoreRuntime, spec: &Value) -> Value {
    let mut o = Map::new();
    o.insert("regs".into(), regs_json(&rt.state, false));
    o.insert("power".into(), json!(power_name(rt.state.power_state())));
    o.insert("cycles".into(), json!(rt.cycle_count()));
    o.insert("instructions".into(), json!(rt.instruction_count()));
    o.insert("imem".into(), json!(hex(rt.memory.internal_slice())));
    let t = &rt.timer;
    o.insert("timer".into(), json!({
        "enabled": t.enabled, "mti_period": t.mti_period, "sti_period": t.sti_period,
        "next_mti": t.next_mti, "next_sti": t.next_sti, "irq_pending": t.irq_pending,
        "in_interrupt": t.in_interrupt, "irq_source": t.irq_source, "key_irq_latched": t.key_irq_latched,
        "irq_total": t.irq_total, "irq_mti": t.irq_mti, "irq_sti": t.irq_sti, "irq_key": t.irq_key,
        "delivered_masks": t.delivered_masks, "kb_irq_enabled": t.kb_irq_enabled,
    }));
    if let Some(Value::Array(ranges)) = spec.get("mem") {
        let mut m = Vec::new();
        for r in ranges {
            let start = u(r, 0) as u32;
            let len = u(r, 1) as u32;
            let bytes: Vec<u8> = (0..len).map(|i| rt.memory.load(start + i, 8).unwrap_or(0) as u8).collect();
            m.push(json!([start, hex(&bytes)]));
        }
        o.insert("mem".into(), json!(m));
    }
    if let Some(kb) = rt.keyboard.as_ref() {
        let snap = kb.snapshot_state();
        o.insert("kbd".into(), json!({"fifo": kb.fifo_snapshot(), "kol": snap.kol, "koh": snap.koh,
                                      "kil": kb.compute_kil(false), "pressed": snap.pressed_keys}));
    }
    if spec.get("lcd").and_then(|v| v.as_bool()).unwrap_or(false) {
        if let Some(lcd) = rt.lcd.as_mut() {
            if let Some(ctrl) = lcd.as_any_mut().downcast_mut::<sc62015_core::lcd::LcdController>() {
                o.insert("lcd".into(), lcd_obs(ctrl, spec.get("disp").and_then(|v| v.as_bool()).unwrap_or(false)));
            }
        }
    }
    Value::Object(o)
}

pub fn cmd_machine(req: &Value) -> Value {
    let cfg = req.get("cfg");
    let rt = Rc::new(RefCell::new(new_runtime(cfg)));
    let mut out: Vec<Value> = Vec::new();
    let empty = json!({});
    let obs_spec = req.get("obs").unwrap_or(&empty).clone();
    let obs_each = req.get("obs_each").and_then(|v| v.as_bool()).unwrap_or(false);
    if let Some(Value::Array(ops)) = req.get("script") {
        for op in ops {
            let mut res = Map::new();
            if let Some(n) = op.get("step").and_then(|v| v.as_u64()) {
                if let Err(e) = rt.borrow_mut().step(n as usize) {
                    res.insert("err".into(), json!(format!("{e}")));
                }
            } else if op.get("press_on").is_some() {
                rt.borrow_mut().press_on_key();
            } else if op.get("release_on").is_some() {
                rt.borrow_mut().release_on_key();
            } else if let Some(c) = op.get("press").and_then(|v| v.as_u64()) {
                let mut r = rt.borrow_mut();
                let r = &mut *r;
                if let Some(kb) = r.keyboard.as_mut() {
                    kb.press_matrix_code(c as u8, &mut r.memory);
                }
            } else if let Some(c) = op.get("release").and_then(|v| v.as_u64()) {
                let mut r = rt.borrow_mut();
                let r = &mut *r;
                if let Some(kb) = r.keyboard.as_mut() {
                    kb.release_matrix_code(c as u8, &mut r.memory);
                }
            } else if let Some(a) = op.get("inject") {
                let mut r = rt.borrow_mut();
                let r = &mut *r;
                let en = r.timer.kb_irq_enabled;
                if let Some(kb) = r.keyboard.as_mut() {
                    let n = kb.inject_matrix_event(u(a, 0) as u8, u(a, 1) != 0, &mut r.memory, en);
                    res.insert("events".into(), json!(n));
                    if n > 0 && en {
                        r.timer.key_irq_latched = true;
                    }
                }
            } else if let Some(a) = op.get("poke") {
                let _ = rt.borrow_mut().memory.store(u(a, 0) as u32, 8, u(a, 1) as u32);
            } else if let Some(a) = op.get("imem") {
                rt.borrow_mut().memory.write_internal_byte(u(a, 0) as u32, u(a, 1) as u8);
            } else if let Some(Value::Object(m)) = op.get("reg") {
                for (k, v) in m {
                    if let Some(r) = reg_by_name(k) {
                        rt.borrow_mut().state.set_reg(r, v.as_u64().unwrap_or(0) as u32);
                    }
                }
            } else if let Some(p) = op.get("save").and_then(|v| v.as_str()) {
                if let Err(e) = rt.borrow().save_snapshot(std::path::Path::new(p)) {
                    res.insert("err".into(), json!(format!("{e}")));
                }
            } else if let Some(p) = op.get("load").and_then(|v| v.as_str()) {
                // fresh runtime with the same configuration, then load
                let mut fresh = new_runtime(cfg);
                match fresh.load_snapshot(std::path::Path::new(p)) {
                    Ok(()) => {
                        *rt.borrow_mut() = fresh;
                    }
                    Err(e) => {
                        res.insert("err".into(), json!(format!("{e}")));
                    }
                }
            } else if let Some(a) = op.get("async_run") {
                let mut runner = AsyncRuntimeRunner::new(rt.clone()).with_slice_cycles(u(a, 1).max(1));
                match runner.run_instructions(u(a, 0) as usize) {
                    Ok(st) => {
                        res.insert("async".into(), json!({"instructions": st.instructions_executed, "cycles": st.cycles_executed}));
                    }
                    Err(e) => {
                        res.insert("err".into(), json!(format!("{e}")));
                    }
                }
            } else if op.get("obs").is_some() {
                res.insert("obs".into(), observe(&mut rt.borrow_mut(), &obs_spec));
            }
            if obs_each && !res.contains_key("obs") {
                res.insert("obs".into(), observe(&mut rt.borrow_mut(), &obs_spec));
            }
            out.push(Value::Object(res));
        }
    }
    let _ = RegName::A;
    json!({"out": out})
}
