use serde_json::{json, Value};
pub fn cmd_machine(_req: &Value) -> Value { json!({"err": "not implemented"}) }
