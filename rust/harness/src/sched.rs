use serde_json::{json, Value};
pub fn cmd_sched(_req: &Value) -> Value { json!({"err": "not implemented"}) }
