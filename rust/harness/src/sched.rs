//! C18: exhaustive exploration of AsyncDriver (enumeration and reference both in Rust).
use serde_json::{json, Value};
use std::cell::RefCell;
use std::collections::BinaryHeap;
use std::cmp::Reverse;
use std::future::Future;
use std::pin::Pin;
use std::rc::Rc;
use std::task::{Context, Poll};

use sc62015_core::async_driver::{current_cycle, emit_event, sleep_cycles, AsyncDriver, DriverEvent};

#[derive(Clone, Copy, Debug, PartialEq, Eq)]
pub enum Step {
    Sleep(u64, bool),
    Pend,
}

struct PendingOnce {
    polled: bool,
}
impl Future for PendingOnce {
    type Output = ();
    fn poll(self: Pin<&mut Self>, _cx: &mut Context<'_>) -> Poll<()> {
        let this = self.get_mut();
        if this.polled {
            Poll::Ready(())
        } else {
            this.polled = true;
            Poll::Pending
        }
    }
}

type Log = Rc<RefCell<Vec<(usize, u64)>>>;

thread_local! {
    /// true: every task emits the same event value (events must still come back once each, none merged)
    static UNIFORM_EVENTS: std::cell::Cell<bool> = std::cell::Cell::new(false);
}

fn event_value(id: usize, k: usize) -> u32 {
    if UNIFORM_EVENTS.with(|u| u.get()) { 7 } else { (id * 16 + k) as u32 }
}

thread_local! {
    /// true: a task builds the future of its NEXT sleep before it awaits the current one (a sleep is measured from the
    /// moment it is first awaited, not from the moment it is constructed)
    static EAGER_SLEEPS: std::cell::Cell<bool> = std::cell::Cell::new(false);
}

async fn task(id: usize, script: Vec<Step>, log: Log) {
    let eager = EAGER_SLEEPS.with(|e| e.get());
    let mut prepared: Option<sc62015_core::async_driver::CycleSleep> = None;
    for (k, st) in script.iter().enumerate() {
        match *st {
            Step::Sleep(d, emit) => {
                let cur = prepared.take().unwrap_or_else(|| sleep_cycles(d));
                if eager {
                    if let Some(Step::Sleep(dn, _)) = script.get(k + 1) {
                        prepared = Some(sleep_cycles(*dn));
                    }
                }
                cur.await;
                log.borrow_mut().push((id, current_cycle()));
                if emit {
                    emit_event(DriverEvent::User(event_value(id, k)));
                }
            }
            Step::Pend => {
                PendingOnce { polled: false }.await;
                log.borrow_mut().push((id, current_cycle()));
            }
        }
    }
}

/// Reference discrete-event scheduler: (wake cycle, arrival order).
fn reference(tasks: &[Vec<Step>], c0: u64) -> (Vec<(usize, u64)>, Vec<u32>) {
    let mut heap: BinaryHeap<Reverse<(u64, u64, usize)>> = BinaryHeap::new();
    let mut seq = 0u64;
    let mut pc = vec![0usize; tasks.len()];
    let mut started = vec![false; tasks.len()];
    for (i, _) in tasks.iter().enumerate() {
        heap.push(Reverse((c0, seq, i)));
        seq += 1;
    }
    let mut log = Vec::new();
    let mut events = Vec::new();
    while let Some(Reverse((c, _s, i))) = heap.pop() {
        let script = &tasks[i];
        if started[i] {
            // the step the task was waiting on completes now
            log.push((i, c));
            if let Step::Sleep(_, true) = script[pc[i]] {
                events.push(event_value(i, pc[i]));
            }
            pc[i] += 1;
        } else {
            started[i] = true;
        }
        if pc[i] < script.len() {
            let wake = match script[pc[i]] {
                Step::Sleep(d, _) => c + d,
                Step::Pend => c + 1,
            };
            heap.push(Reverse((wake, seq, i)));
            seq += 1;
        }
    }
    (log, events)
}

pub struct RunOutcome {
    pub violation: Option<(String, String)>,
    pub log_len: usize,
}

fn run_case_inner(tasks: &[Vec<Step>], budgets: &[u64], c0: u64) -> RunOutcome {
    // distinct event values first, then the same value for every event
    UNIFORM_EVENTS.with(|u| u.set(false));
    let a = run_case_mode(tasks, budgets, c0);
    if a.violation.is_some() || !tasks.iter().flatten().any(|s| matches!(s, Step::Sleep(_, true))) {
        return a;
    }
    UNIFORM_EVENTS.with(|u| u.set(true));
    let mut b = run_case_mode(tasks, budgets, c0);
    UNIFORM_EVENTS.with(|u| u.set(false));
    if let Some((k, w)) = b.violation.take() {
        b.violation = Some((format!("{k}/equal-event-values"), format!("[all events carry the same value] {w}")));
    }
    b
}

/// Another driver that ran to completion earlier on this thread (its thread-local "current cycle" is left at 777+).
fn preamble_driver() {
    let mut d = AsyncDriver::with_clock(770);
    d.spawn(async {
        sleep_cycles(7).await;
    });
    let _ = d.run_for(100);
}

pub fn run_case(tasks: &[Vec<Step>], budgets: &[u64], c0: u64) -> RunOutcome {
    let a = run_case_inner(tasks, budgets, c0);
    if a.violation.is_some() {
        return a;
    }
    // sleeps constructed one step ahead of their await
    EAGER_SLEEPS.with(|e| e.set(true));
    let mut c = run_case_mode(tasks, budgets, c0);
    EAGER_SLEEPS.with(|e| e.set(false));
    if let Some((k, w)) = c.violation.take() {
        c.violation = Some((format!("{k}/sleep-built-before-it-is-awaited"), format!("[each sleep future is built one step before it is awaited] {w}")));
        return c;
    }
    // the same case right after an unrelated driver used this thread: nothing of it may leak into a new driver
    preamble_driver();
    let mut b = run_case_mode(tasks, budgets, c0);
    if let Some((k, w)) = b.violation.take() {
        b.violation = Some((format!("{k}/after-another-driver-on-the-thread"), format!("[after an unrelated driver ran on this thread] {w}")));
    }
    b
}

fn run_case_mode(tasks: &[Vec<Step>], budgets: &[u64], c0: u64) -> RunOutcome {
    let (ref_log, ref_events) = reference(tasks, c0);
    let log: Log = Rc::new(RefCell::new(Vec::new()));
    let mut driver = if c0 == 0 { AsyncDriver::new() } else { AsyncDriver::with_clock(c0) };
    for (i, s) in tasks.iter().enumerate() {
        driver.spawn(task(i, s.clone(), log.clone()));
    }
    let mut events: Vec<u32> = Vec::new();
    let mut viol: Option<(String, String)> = None;
    let mut check = |driver: &AsyncDriver, before: u64, r: sc62015_core::async_driver::DriverRunResult,
                     log: &Log, events: &mut Vec<u32>, viol: &mut Option<(String, String)>| {
        let after = driver.clock();
        if viol.is_some() {
            return;
        }
        if after < before {
            *viol = Some(("clock-moved-backwards".into(), format!("clock {before} -> {after}")));
        } else if r.cycles_executed != after - before {
            *viol = Some(("cycles-executed-mismatch".into(),
                          format!("cycles_executed {} but clock moved {before} -> {after}", r.cycles_executed)));
        }
        if let DriverEvent::User(e) = r.event {
            events.push(e);
        }
        let l = log.borrow();
        if l.len() > ref_log.len() || l[..] != ref_log[..l.len()] {
            let k = l.iter().zip(ref_log.iter()).position(|(a, b)| a != b).unwrap_or(l.len().min(ref_log.len()));
            *viol = Some(("resumption-log-not-prefix".into(),
                          format!("resumption #{k}: got {:?}, reference {:?} (task, cycle)", l.get(k), ref_log.get(k))));
        }
    };
    for b in budgets {
        let before = driver.clock();
        let r = driver.run_for(*b);
        check(&driver, before, r, &log, &mut events, &mut viol);
    }
    // drain
    let mut idle = 0;
    let mut guard = 0;
    while idle < 2 && guard < 10_000 {
        guard += 1;
        let before = driver.clock();
        let len_before = log.borrow().len();
        let r = driver.run_for(u64::MAX);      // the host loop's "run until the next event" budget
        check(&driver, before, r, &log, &mut events, &mut viol);
        if r.event == DriverEvent::MaxCycles && log.borrow().len() == len_before {
            idle += 1;
        } else {
            idle = 0;
        }
    }
    if viol.is_none() {
        let l = log.borrow();
        if l[..] != ref_log[..] {
            viol = Some(("resumptions-missing-after-drain".into(),
                         format!("log has {} resumptions, reference {} : {:?} vs {:?}", l.len(), ref_log.len(), &l[..], &ref_log[..])));
        } else if events != ref_events {
            viol = Some(("events-lost-duplicated-or-reordered".into(),
                         format!("returned events {:?}, emitted (reference order) {:?}", events, ref_events)));
        }
    }
    RunOutcome { violation: viol, log_len: ref_log.len() }
}

fn steps_alphabet(durs: &[u64], with_emit: bool, with_pend: bool) -> Vec<Step> {
    let mut v = Vec::new();
    for d in durs {
        v.push(Step::Sleep(*d, false));
        if with_emit {
            v.push(Step::Sleep(*d, true));
        }
    }
    if with_pend {
        v.push(Step::Pend);
    }
    v
}

fn scripts(alpha: &[Step], max_len: usize) -> Vec<Vec<Step>> {
    let mut out: Vec<Vec<Step>> = Vec::new();
    let mut cur: Vec<Vec<Step>> = vec![vec![]];
    for _ in 0..max_len {
        let mut nxt = Vec::new();
        for s in &cur {
            for a in alpha {
                let mut t = s.clone();
                t.push(*a);
                nxt.push(t);
            }
        }
        out.extend(nxt.iter().cloned());
        cur = nxt;
    }
    out
}

fn budget_seqs(vals: &[u64], max_len: usize) -> Vec<Vec<u64>> {
    let mut out: Vec<Vec<u64>> = vec![vec![]];
    let mut cur: Vec<Vec<u64>> = vec![vec![]];
    for _ in 0..max_len {
        let mut nxt = Vec::new();
        for s in &cur {
            for v in vals {
                let mut t = s.clone();
                t.push(*v);
                nxt.push(t);
            }
        }
        out.extend(nxt.iter().cloned());
        cur = nxt;
    }
    out
}

fn step_json(s: &Step) -> Value {
    match s {
        Step::Sleep(d, e) => json!(["sleep", d, e]),
        Step::Pend => json!(["pend"]),
    }
}

fn step_from(v: &Value) -> Step {
    let a = v.as_array().unwrap();
    if a[0].as_str() == Some("pend") {
        Step::Pend
    } else {
        Step::Sleep(a[1].as_u64().unwrap_or(0), a[2].as_bool().unwrap_or(false))
    }
}

/// Enumerate task sets: families (ntasks, scripts) as described in DESIGN.md / evidence rule.
fn families(thorough: bool, seed: u64) -> Vec<(String, Vec<Vec<Vec<Step>>>)> {
    let mut full_d = vec![0u64, 1, 2, 3, 5];
    if seed != 0 {
        full_d.push(4 + seed % 5);
    }
    let full = steps_alphabet(&full_d, true, true);
    let red = steps_alphabet(&[0, 1, 2], true, true);
    let tiny = vec![Step::Sleep(0, false), Step::Sleep(1, false), Step::Sleep(1, true), Step::Pend];
    let mut fams: Vec<(String, Vec<Vec<Vec<Step>>>)> = Vec::new();
    // 1 task
    let s1 = scripts(&full, if thorough { 4 } else { 3 });
    fams.push(("1task/full".into(), s1.iter().map(|s| vec![s.clone()]).collect()));
    // 2 tasks
    let s2 = scripts(&full, 2);
    let mut v2 = Vec::new();
    for a in &s2 {
        for b in &s2 {
            v2.push(vec![a.clone(), b.clone()]);
        }
    }
    fams.push(("2tasks/full-len2".into(), v2));
    let s2r = scripts(&red, if thorough { 3 } else { 2 });
    let mut v2r = Vec::new();
    for a in &s2r {
        for b in &s2r {
            v2r.push(vec![a.clone(), b.clone()]);
        }
    }
    fams.push(("2tasks/reduced".into(), v2r));
    // 3 tasks
    let s3 = scripts(&red, if thorough { 2 } else { 1 });
    let s3t = scripts(&tiny, 2);
    let s3u = if thorough { s3.clone() } else { let mut x = s3.clone(); x.extend(s3t.iter().cloned()); x };
    let mut v3 = Vec::new();
    for a in &s3u {
        for b in &s3u {
            for c in &s3u {
                v3.push(vec![a.clone(), b.clone(), c.clone()]);
            }
        }
    }
    fams.push(("3tasks".into(), v3));
    // 4 tasks
    let s4 = scripts(&tiny, if thorough { 2 } else { 1 });
    let s4f = scripts(&full, 1);
    let mut v4 = Vec::new();
    for set in [&s4, &s4f] {
        for a in set.iter() {
            for b in set.iter() {
                for c in set.iter() {
                    for d in set.iter() {
                        v4.push(vec![a.clone(), b.clone(), c.clone(), d.clone()]);
                    }
                }
            }
        }
    }
    fams.push(("4tasks".into(), v4));
    fams
}

pub fn cmd_sched(req: &Value) -> Value {
    if let Some(rp) = req.get("replay") {
        let tasks: Vec<Vec<Step>> = rp["tasks"].as_array().unwrap().iter()
            .map(|t| t.as_array().unwrap().iter().map(step_from).collect()).collect();
        let budgets: Vec<u64> = rp["budgets"].as_array().unwrap().iter().map(|b| b.as_u64().unwrap()).collect();
        let c0 = rp["clock0"].as_u64().unwrap_or(0);
        let o = run_case(&tasks, &budgets, c0);
        return json!({"violation": o.violation.map(|(k, w)| json!({"kind": k, "what": w}))});
    }
    let thorough = req.get("tier").and_then(|v| v.as_str()) == Some("thorough");
    let seed = req.get("seed").and_then(|v| v.as_u64()).unwrap_or(0);
    let nthreads = req.get("threads").and_then(|v| v.as_u64()).unwrap_or(8) as usize;
    let bvals: Vec<u64> = vec![1, 2, 3, 4, 7];
    let bseqs = budget_seqs(&bvals, if thorough { 4 } else { 2 });
    let fams = families(thorough, seed);
    let mut fam_stats = Vec::new();
    let mut all_viol: Vec<Value> = Vec::new();
    let mut total_runs: u64 = 0;
    let mut total_sets: u64 = 0;
    let mut total_resumptions: u64 = 0;
    for (name, sets) in fams.iter() {
        let chunk = (sets.len() + nthreads - 1) / nthreads.max(1);
        let results: Vec<(u64, u64, Vec<Value>)> = std::thread::scope(|sc| {
            let mut hs = Vec::new();
            for part in sets.chunks(chunk.max(1)) {
                let bseqs = &bseqs;
                let name = name.clone();
                hs.push(sc.spawn(move || {
                    std::panic::set_hook(Box::new(|_| {}));
                    let mut runs = 0u64;
                    let mut resum = 0u64;
                    let mut viols: Vec<Value> = Vec::new();
                    for tasks in part {
                        for c0 in [0u64, 1000] {
                            for b in bseqs.iter() {
                                // thorough budget depth only from clock 0; the shifted clock uses length <= 2
                                if c0 != 0 && b.len() > 2 {
                                    continue;
                                }
                                let o = std::panic::catch_unwind(std::panic::AssertUnwindSafe(|| run_case(tasks, b, c0)));
                                runs += 1;
                                match o {
                                    Ok(o) => {
                                        resum += o.log_len as u64;
                                        if let Some((kind, what)) = o.violation {
                                            if viols.len() < 5 {
                                                viols.push(json!({"kind": kind, "what": what, "family": name,
                                                    "tasks": tasks.iter().map(|t| t.iter().map(step_json).collect::<Vec<_>>()).collect::<Vec<_>>(),
                                                    "budgets": b, "clock0": c0}));
                                            }
                                        }
                                    }
                                    Err(_) => {
                                        if viols.len() < 5 {
                                            viols.push(json!({"kind": "panic", "what": "AsyncDriver panicked", "family": name,
                                                "tasks": tasks.iter().map(|t| t.iter().map(step_json).collect::<Vec<_>>()).collect::<Vec<_>>(),
                                                "budgets": b, "clock0": c0}));
                                        }
                                    }
                                }
                            }
                        }
                    }
                    (runs, resum, viols)
                }));
            }
            hs.into_iter().map(|h| h.join().unwrap_or((0, 0, vec![json!({"kind": "thread-panic"})]))).collect()
        });
        let runs: u64 = results.iter().map(|r| r.0).sum();
        let resum: u64 = results.iter().map(|r| r.1).sum();
        total_runs += runs;
        total_sets += sets.len() as u64;
        total_resumptions += resum;
        for r in results {
            all_viol.extend(r.2);
        }
        fam_stats.push(json!({"family": name, "task_sets": sets.len(), "runs": runs}));
    }
    json!({
        "task_sets": total_sets,
        "runs": total_runs,
        "resumptions_checked": total_resumptions,
        "budget_sequences": bseqs.len(),
        "families": fam_stats,
        "violations": all_viol,
        "sample": {"tasks": [[["sleep", 2, true], ["pend"]], [["sleep", 0, false], ["sleep", 2, true]]], "budgets": [1, 3], "clock0": 0},
    })
}
