//! Verification harness: thin command layer over the public API of sc62015-core.
//! Protocol: one JSON value per stdin line (object or array of objects) -> one JSON line on stdout.
use serde_json::{json, Map, Value};
use std::collections::{BTreeMap, HashMap};
use std::io::{self, BufRead, Write};
use std::panic::{catch_unwind, AssertUnwindSafe};

use sc62015_core::llama::eval::{LlamaBus, LlamaExecutor};
use sc62015_core::llama::opcodes::{RegName, OPCODES};
use sc62015_core::llama::state::{mask_for, LlamaState, PowerState};

mod devices;
mod machine;
mod sched;

pub fn reg_by_name(name: &str) -> Option<RegName> {
    Some(match name {
        "A" => RegName::A,
        "B" => RegName::B,
        "BA" => RegName::BA,
        "IL" => RegName::IL,
        "IH" => RegName::IH,
        "I" => RegName::I,
        "X" => RegName::X,
        "Y" => RegName::Y,
        "U" => RegName::U,
        "S" => RegName::S,
        "F" => RegName::F,
        "PC" => RegName::PC,
        "FC" => RegName::FC,
        "FZ" => RegName::FZ,
        "IMR" => RegName::IMR,
        _ => {
            if let Some(rest) = name.strip_prefix("TEMP") {
                return rest.parse::<u8>().ok().map(RegName::Temp);
            }
            return None;
        }
    })
}

pub const ARCH_REGS: [&str; 14] = [
    "A", "B", "BA", "IL", "IH", "I", "X", "Y", "U", "S", "PC", "F", "FC", "FZ",
];

pub fn fill_byte(addr: u32, k: u32) -> u8 {
    if k == 0 {
        return 0;
    }
    let x = (addr as u64).wrapping_mul(2654435761).wrapping_add(((k & 0xFF) as u64).wrapping_mul(40503));
    let b = (((x >> 7) ^ (x >> 15) ^ (x >> 23)) & 0xFF) as u8;
    // flag 0x100: internal-memory bytes keep a zero high nibble so 3-byte pointers stay below 1 MiB
    if (k & 0x100) != 0 && (0x100000..0x100100).contains(&addr) {
        return b & 0x0F;
    }
    // flag 0x200: internal-memory bytes are valid packed BCD digits
    if (k & 0x200) != 0 && (0x100000..0x100100).contains(&addr) {
        return (((b >> 4) % 10) << 4) | ((b & 0x0F) % 10);
    }
    b
}

/// Flat recording bus: sparse byte map over a 24-bit space with a deterministic default fill.
pub struct FlatBus {
    pub mem: HashMap<u32, u8>,
    pub fill: u32,
    pub written: BTreeMap<u32, u8>,
    pub reads: Vec<u32>,
    pub log_reads: bool,
    pub waits: Vec<u32>,
}

impl FlatBus {
    pub fn new(fill: u32) -> Self {
        FlatBus { mem: HashMap::new(), fill, written: BTreeMap::new(), reads: Vec::new(), log_reads: false, waits: Vec::new() }
    }
    fn rd(&mut self, addr: u32) -> u8 {
        let a = addr & 0xFF_FFFF;
        if self.log_reads {
            self.reads.push(a);
        }
        match self.mem.get(&a) {
            Some(v) => *v,
            None => fill_byte(a, self.fill),
        }
    }
    fn wr(&mut self, addr: u32, v: u8) {
        let a = addr & 0xFF_FFFF;
        self.mem.insert(a, v);
        self.written.insert(a, v);
    }
}

impl LlamaBus for FlatBus {
    fn load(&mut self, addr: u32, bits: u8) -> u32 {
        let bytes = ((bits as u32) + 7) / 8;
        let mut out = 0u32;
        for i in 0..bytes.max(1) {
            out |= (self.rd(addr.wrapping_add(i)) as u32) << (8 * i);
        }
        out
    }
    fn store(&mut self, addr: u32, bits: u8, value: u32) {
        let bytes = ((bits as u32) + 7) / 8;
        for i in 0..bytes.max(1) {
            self.wr(addr.wrapping_add(i), ((value >> (8 * i)) & 0xFF) as u8);
        }
    }
    fn wait_cycles(&mut self, cycles: u32) {
        self.waits.push(cycles);
    }
}

pub fn power_name(p: PowerState) -> &'static str {
    match p {
        PowerState::Running => "running",
        PowerState::Halted => "halted",
        PowerState::Off => "off",
    }
}

pub fn regs_json(state: &LlamaState, temps: bool) -> Value {
    let mut m = Map::new();
    for n in ARCH_REGS.iter() {
        m.insert((*n).to_string(), json!(state.get_reg(reg_by_name(n).unwrap())));
    }
    m.insert("IMR".to_string(), json!(state.get_reg(RegName::IMR)));
    if temps {
        for i in 0..14u8 {
            m.insert(format!("TEMP{i}"), json!(state.get_reg(RegName::Temp(i))));
        }
    }
    Value::Object(m)
}

fn apply_regs(state: &mut LlamaState, v: Option<&Value>) {
    if let Some(Value::Object(m)) = v {
        // deterministic order: sub-registers after their parents
        let order = ["BA", "A", "B", "I", "IL", "IH", "X", "Y", "U", "S", "PC", "F", "FC", "FZ", "IMR"];
        for n in order.iter() {
            if let Some(val) = m.get(*n) {
                state.set_reg(reg_by_name(n).unwrap(), val.as_u64().unwrap_or(0) as u32);
            }
        }
        for (k, val) in m.iter() {
            if k.starts_with("TEMP") {
                if let Some(r) = reg_by_name(k) {
                    state.set_reg(r, val.as_u64().unwrap_or(0) as u32);
                }
            }
        }
    }
}

/// exec: run `steps` instructions on a fresh LlamaState + FlatBus.
fn cmd_exec(req: &Value) -> Value {
    let mut state = LlamaState::new();
    let mut bus = FlatBus::new(req.get("fill").and_then(|v| v.as_u64()).unwrap_or(0) as u32);
    if let Some(Value::Array(items)) = req.get("mem") {
        for it in items {
            if let Some(pair) = it.as_array() {
                let a = pair[0].as_u64().unwrap_or(0) as u32 & 0xFF_FFFF;
                let v = pair[1].as_u64().unwrap_or(0) as u8;
                bus.mem.insert(a, v);
            }
        }
    }
    apply_regs(&mut state, req.get("regs"));
    if let Some(Value::Array(calls)) = req.get("call_frames") {
        for c in calls {
            let d = c.as_u64().unwrap_or(0) as u32;
            state.push_call_frame(d, 16);
            state.push_call_page(d & 0xFF0000);
            state.call_depth_inc();
        }
    }
    bus.log_reads = req.get("log_reads").and_then(|v| v.as_bool()).unwrap_or(false);
    let steps = req.get("steps").and_then(|v| v.as_u64()).unwrap_or(1);
    let mut exec = LlamaExecutor::new();
    let mut lens: Vec<Value> = Vec::new();
    let mut trace: Vec<Value> = Vec::new();
    let want_trace = req.get("trace").and_then(|v| v.as_bool()).unwrap_or(false);
    let mut err: Option<String> = None;
    let ignore_power = req.get("ignore_power").and_then(|v| v.as_bool()).unwrap_or(false);
    for _ in 0..steps {
        if state.is_halted() && !ignore_power {
            break;
        }
        let pc = state.pc();
        bus.log_reads = false;
        let opcode = bus.load(pc, 8) as u8;
        bus.log_reads = req.get("log_reads").and_then(|v| v.as_bool()).unwrap_or(false);
        match exec.execute(opcode, &mut state, &mut bus) {
            Ok(len) => lens.push(json!(len)),
            Err(e) => {
                err = Some(e.to_string());
                break;
            }
        }
        if want_trace {
            trace.push(regs_json(&state, false));
        }
    }
    let writes: Vec<Value> = bus.written.iter().map(|(a, v)| json!([a, v])).collect();
    let mut out = json!({
        "regs": regs_json(&state, req.get("temps").and_then(|v| v.as_bool()).unwrap_or(false)),
        "lens": lens,
        "writes": writes,
        "power": power_name(state.power_state()),
        "err": err,
        "waits": bus.waits,
        "call_depth": state.call_depth(),
    });
    if want_trace {
        out["trace"] = Value::Array(trace);
    }
    if bus.log_reads {
        out["reads"] = json!(bus.reads);
    }
    out
}

/// regs: script of {"set":[name,val]} / {"get":name} / {"snap":true} on one LlamaState.
fn cmd_regs(req: &Value) -> Value {
    let mut state = LlamaState::new();
    let mut out: Vec<Value> = Vec::new();
    if let Some(Value::Array(ops)) = req.get("script") {
        for op in ops {
            if let Some(arr) = op.get("set").and_then(|v| v.as_array()) {
                let name = arr[0].as_str().unwrap_or("");
                let val = arr[1].as_u64().unwrap_or(0) as u32;
                match reg_by_name(name) {
                    // the program counter also has dedicated accessors: use them for PC writes so both paths are exercised
                    Some(r) if name == "PC" && op.get("via_pc_accessor").and_then(|v| v.as_bool()).unwrap_or(false) => {
                        let _ = r;
                        state.set_pc(val)
                    }
                    Some(r) => state.set_reg(r, val),
                    None => out.push(json!({"err": format!("unknown reg {name}")})),
                }
            } else if op.get("readall").is_some() {
                let mut v = regs_json(&state, op.get("temps").and_then(|v| v.as_bool()).unwrap_or(false));
                v["PC_accessor"] = json!(state.pc());
                out.push(v);
            } else if op.get("snap_map").is_some() {
                // collect -> apply to a fresh state (the name-keyed register map carried by snapshot bundles, scratch registers included)
                let regs = sc62015_core::collect_registers(&state);
                let mut fresh = LlamaState::new();
                sc62015_core::apply_registers(&mut fresh, &regs);
                out.push(json!({"fresh": regs_json(&fresh, true),
                                "collected": regs.iter().map(|(k,v)| (k.clone(), json!(v))).collect::<Map<String,Value>>()}));
            } else if op.get("snap").is_some() {
                // collect -> pack -> unpack -> apply to a fresh state
                let regs = sc62015_core::collect_registers(&state);
                let blob = sc62015_core::snapshot::pack_registers(&regs);
                let back = sc62015_core::snapshot::unpack_registers(&blob);
                let mut fresh = LlamaState::new();
                let mut e: Option<String> = None;
                match back {
                    Ok(m) => sc62015_core::apply_registers(&mut fresh, &m),
                    Err(x) => e = Some(format!("{x}")),
                }
                let hex: String = blob.iter().map(|b| format!("{b:02x}")).collect();
                out.push(json!({"blob": hex, "fresh": regs_json(&fresh, false), "err": e,
                                "collected": regs.iter().map(|(k,v)| (k.clone(), json!(v))).collect::<Map<String,Value>>()}));
            }
        }
    }
    json!({"out": out})
}

fn cmd_tables(_req: &Value) -> Value {
    let ops: Vec<Value> = OPCODES
        .iter()
        .map(|e| {
            json!({
                "opcode": e.opcode,
                "kind": format!("{:?}", e.kind),
                "name": e.name,
                "cond": e.cond,
                "ops_reversed": e.ops_reversed,
                "operands": e.operands.iter().map(|o| format!("{o:?}")).collect::<Vec<_>>(),
            })
        })
        .collect();
    let mut masks = Map::new();
    for n in ARCH_REGS.iter().chain(["IMR"].iter()) {
        masks.insert((*n).to_string(), json!(mask_for(reg_by_name(n).unwrap())));
    }
    masks.insert("TEMP0".to_string(), json!(mask_for(RegName::Temp(0))));
    let mut widths = Map::new();
    for n in ARCH_REGS.iter() {
        widths.insert((*n).to_string(), json!(sc62015_core::register_width(n)));
    }
    let layout: Vec<Value> = sc62015_core::snapshot::SNAPSHOT_REGISTER_LAYOUT
        .iter()
        .map(|(n, w)| json!([n, w]))
        .collect();
    json!({
        "opcodes": ops,
        "masks": masks,
        "register_width": widths,
        "snapshot_layout": layout,
        "consts": devices::consts(),
    })
}

fn dispatch(req: &Value) -> Value {
    let cmd = req.get("cmd").and_then(|v| v.as_str()).unwrap_or("");
    let r = catch_unwind(AssertUnwindSafe(|| match cmd {
        "exec" => cmd_exec(req),
        "regs" => cmd_regs(req),
        "tables" => cmd_tables(req),
        "ping" => json!({"pong": true}),
        "mem" => devices::cmd_mem(req),
        "sysimage" => devices::cmd_sysimage(req),
        "timer" => devices::cmd_timer(req),
        "kbd" => devices::cmd_kbd(req),
        "lcd" => devices::cmd_lcd(req),
        "machine" => machine::cmd_machine(req),
        "sched" => sched::cmd_sched(req),
        _ => json!({"err": format!("unknown cmd {cmd}")}),
    }));
    match r {
        Ok(v) => v,
        Err(p) => {
            let msg = if let Some(s) = p.downcast_ref::<&str>() {
                s.to_string()
            } else if let Some(s) = p.downcast_ref::<String>() {
                s.clone()
            } else {
                "panic".to_string()
            };
            json!({"panic": msg})
        }
    }
}

fn main() {
    // silence the default panic printer: panics are reported as results
    std::panic::set_hook(Box::new(|_| {}));
    let stdin = io::stdin();
    let stdout = io::stdout();
    let mut out = stdout.lock();
    for line in stdin.lock().lines() {
        let line = match line {
            Ok(l) => l,
            Err(_) => break,
        };
        if line.trim().is_empty() {
            continue;
        }
        let resp = match serde_json::from_str::<Value>(&line) {
            Ok(Value::Array(reqs)) => Value::Array(reqs.iter().map(dispatch).collect()),
            Ok(v) => dispatch(&v),
            Err(e) => json!({"err": format!("bad json: {e}")}),
        };
        let _ = writeln!(out, "{}", resp);
        let _ = out.flush();
    }
}
