use serde_json::{json, Value};

pub fn consts() -> Value {
    use sc62015_core::memory as m;
    use sc62015_core::pce500 as p;
    json!({
        "INTERNAL_MEMORY_START": m::INTERNAL_MEMORY_START,
        "ADDRESS_MASK": m::ADDRESS_MASK,
        "INTERNAL_ADDR_MASK": m::INTERNAL_ADDR_MASK,
        "EXTERNAL_SPACE": m::EXTERNAL_SPACE,
        "INTERNAL_SPACE": m::INTERNAL_SPACE,
        "INTERNAL_RAM_START": m::INTERNAL_RAM_START,
        "INTERNAL_RAM_SIZE": m::INTERNAL_RAM_SIZE,
        "IMEM": {
            "KOL": m::IMEM_KOL_OFFSET, "KOH": m::IMEM_KOH_OFFSET, "KIL": m::IMEM_KIL_OFFSET,
            "BP": m::IMEM_BP_OFFSET, "PX": m::IMEM_PX_OFFSET, "PY": m::IMEM_PY_OFFSET,
            "UCR": m::IMEM_UCR_OFFSET, "USR": m::IMEM_USR_OFFSET, "RXD": m::IMEM_RXD_OFFSET,
            "TXD": m::IMEM_TXD_OFFSET, "IMR": m::IMEM_IMR_OFFSET, "ISR": m::IMEM_ISR_OFFSET,
            "SCR": m::IMEM_SCR_OFFSET, "LCC": m::IMEM_LCC_OFFSET, "SSR": m::IMEM_SSR_OFFSET,
        },
        "SYSTEM_IMAGE_LEN": p::SYSTEM_IMAGE_LEN,
        "ROM_WINDOW_START": p::ROM_WINDOW_START,
        "ROM_WINDOW_LEN": p::ROM_WINDOW_LEN,
        "ROM_RESET_VECTOR_ADDR": p::ROM_RESET_VECTOR_ADDR,
        "DEFAULT_CPU_HZ": p::DEFAULT_CPU_HZ,
        "DEFAULT_MTI_PERIOD": p::DEFAULT_MTI_PERIOD,
        "DEFAULT_STI_PERIOD": p::DEFAULT_STI_PERIOD,
        "SNAPSHOT_MAGIC": sc62015_core::snapshot::SNAPSHOT_MAGIC,
        "SNAPSHOT_VERSION": sc62015_core::snapshot::SNAPSHOT_VERSION,
        "LCD_DISPLAY_ROWS": sc62015_core::lcd::LCD_DISPLAY_ROWS,
        "LCD_DISPLAY_COLS": sc62015_core::lcd::LCD_DISPLAY_COLS,
    })
}
pub fn cmd_mem(_req: &Value) -> Value { json!({"err": "not implemented"}) }
/// timer: script over one TimerContext + MemoryImage.
/// ops: {"new":[enabled,mti,sti]} {"tick":cycle} {"reset":cycle} {"snap":cycle} {"set_isr":v}
pub fn cmd_timer(req: &Value) -> Value {
    use sc62015_core::memory::MemoryImage;
    use sc62015_core::timer::TimerContext;
    let mut mem = MemoryImage::new();
    let mut t = TimerContext::new(true, 0, 0);
    let mut out: Vec<Value> = Vec::new();
    if let Some(Value::Array(ops)) = req.get("script") {
        for op in ops {
            if let Some(a) = op.get("new").and_then(|v| v.as_array()) {
                t = TimerContext::new(
                    a[0].as_bool().unwrap_or(true),
                    a[1].as_i64().unwrap_or(0) as i32,
                    a[2].as_i64().unwrap_or(0) as i32,
                );
                out.push(json!({"next_mti": t.next_mti, "next_sti": t.next_sti}));
            } else if let Some(c) = op.get("tick").and_then(|v| v.as_u64()) {
                let (m, s) = t.tick_timers(&mut mem, c, None);
                let isr = mem.read_internal_byte(0xFC).unwrap_or(0);
                out.push(json!({"mti": m, "sti": s, "next_mti": t.next_mti, "next_sti": t.next_sti, "isr": isr,
                                "pending": t.irq_pending}));
            } else if let Some(c) = op.get("finalize").and_then(|v| v.as_u64()) {
                t.finalize_instruction(c);
                out.push(json!({"next_mti": t.next_mti, "next_sti": t.next_sti}));
            } else if let Some(c) = op.get("reset").and_then(|v| v.as_u64()) {
                t.reset(c);
                out.push(json!({"next_mti": t.next_mti, "next_sti": t.next_sti}));
            } else if let Some(c) = op.get("snap").and_then(|v| v.as_u64()) {
                let (ti, ii) = t.snapshot_info();
                let mut fresh = TimerContext::new(false, 0, 0);
                fresh.apply_snapshot_info(&ti, &ii, c);
                t = fresh;
                out.push(json!({"next_mti": t.next_mti, "next_sti": t.next_sti, "enabled": t.enabled,
                                "mti_period": t.mti_period, "sti_period": t.sti_period}));
            } else if let Some(v) = op.get("set_isr").and_then(|v| v.as_u64()) {
                mem.write_internal_byte(0xFC, v as u8);
                out.push(json!({}));
            }
        }
    }
    json!({"out": out})
}
pub fn cmd_kbd(_req: &Value) -> Value { json!({"err": "not implemented"}) }
pub fn cmd_lcd(_req: &Value) -> Value { json!({"err": "not implemented"}) }
