use serde_json::{json, Value};

pub fn consts() -> Value {
    json!({})
}
pub fn cmd_mem(_req: &Value) -> Value { json!({"err": "not implemented"}) }
pub fn cmd_timer(_req: &Value) -> Value { json!({"err": "not implemented"}) }
pub fn cmd_kbd(_req: &Value) -> Value { json!({"err": "not implemented"}) }
pub fn cmd_lcd(_req: &Value) -> Value { json!({"err": "not implemented"}) }
