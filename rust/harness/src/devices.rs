use serde_json::{json, Value};

pub fn consts() -> Value {
    use sc62015_core::memory as m;
    use sc62015_core::pce500 as p;
    json!({
        "INTERNAL_MEMORY_START": m::INTERNAL_MEMORY_START,
        "ADDRESS_MASK": m::ADDRESS_MASK,
        "INTERNAL_ADDR_MASK": m::INTERNAL_ADDR_MASK,
        "EXTERNAL_SPACE": m::EXTERNAL_SPACE,
        "INTERNAL_SPACE": m::INTERNAL_SPACE,
        "INTERNAL_RAM_START": m::INTERNAL_RAM_START,
        "INTERNAL_RAM_SIZE": m::INTERNAL_RAM_SIZE,
        "IMEM": {
            "KOL": m::IMEM_KOL_OFFSET, "KOH": m::IMEM_KOH_OFFSET, "KIL": m::IMEM_KIL_OFFSET,
            "BP": m::IMEM_BP_OFFSET, "PX": m::IMEM_PX_OFFSET, "PY": m::IMEM_PY_OFFSET,
            "UCR": m::IMEM_UCR_OFFSET, "USR": m::IMEM_USR_OFFSET, "RXD": m::IMEM_RXD_OFFSET,
            "TXD": m::IMEM_TXD_OFFSET, "IMR": m::IMEM_IMR_OFFSET, "ISR": m::IMEM_ISR_OFFSET,
            "SCR": m::IMEM_SCR_OFFSET, "LCC": m::IMEM_LCC_OFFSET, "SSR": m::IMEM_SSR_OFFSET,
        },
        "SYSTEM_IMAGE_LEN": p::SYSTEM_IMAGE_LEN,
        "ROM_WINDOW_START": p::ROM_WINDOW_START,
        "ROM_WINDOW_LEN": p::ROM_WINDOW_LEN,
        "ROM_RESET_VECTOR_ADDR": p::ROM_RESET_VECTOR_ADDR,
        "DEFAULT_CPU_HZ": p::DEFAULT_CPU_HZ,
        "DEFAULT_MTI_PERIOD": p::DEFAULT_MTI_PERIOD,
        "DEFAULT_STI_PERIOD": p::DEFAULT_STI_PERIOD,
        "SNAPSHOT_MAGIC": sc62015_core::snapshot::SNAPSHOT_MAGIC,
        "SNAPSHOT_VERSION": sc62015_core::snapshot::SNAPSHOT_VERSION,
        "LCD_DISPLAY_ROWS": sc62015_core::lcd::LCD_DISPLAY_ROWS,
        "LCD_DISPLAY_COLS": sc62015_core::lcd::LCD_DISPLAY_COLS,
    })
}
/// timer: script over one TimerContext + MemoryImage.
/// ops: {"new":[enabled,mti,sti]} {"tick":cycle} {"reset":cycle} {"snap":cycle} {"set_isr":v}
pub fn cmd_timer(req: &Value) -> Value {
    use sc62015_core::memory::MemoryImage;
    use sc62015_core::timer::TimerContext;
    let mut mem = MemoryImage::new();
    let mut t = TimerContext::new(true, 0, 0);
    let mut out: Vec<Value> = Vec::new();
    if let Some(Value::Array(ops)) = req.get("script") {
        for op in ops {
            if let Some(a) = op.get("new").and_then(|v| v.as_array()) {
                t = TimerContext::new(
                    a[0].as_bool().unwrap_or(true),
                    a[1].as_i64().unwrap_or(0) as i32,
                    a[2].as_i64().unwrap_or(0) as i32,
                );
                out.push(json!({"next_mti": t.next_mti, "next_sti": t.next_sti}));
            } else if let Some(c) = op.get("tick").and_then(|v| v.as_u64()) {
                let (m, s) = t.tick_timers(&mut mem, c, None);
                let isr = mem.read_internal_byte(0xFC).unwrap_or(0);
                out.push(json!({"mti": m, "sti": s, "next_mti": t.next_mti, "next_sti": t.next_sti, "isr": isr,
                                "pending": t.irq_pending}));
            } else if let Some(c) = op.get("finalize").and_then(|v| v.as_u64()) {
                t.finalize_instruction(c);
                out.push(json!({"next_mti": t.next_mti, "next_sti": t.next_sti}));
            } else if op.get("mreset").is_some() {
                // what a machine reset does around the timer: counter back to 0, timers re-armed from there, status cleared
                t.reset(0);
                mem.write_internal_byte(0xFC, 0);
                out.push(json!({"next_mti": t.next_mti, "next_sti": t.next_sti}));
            } else if let Some(c) = op.get("reset").and_then(|v| v.as_u64()) {
                t.reset(c);
                out.push(json!({"next_mti": t.next_mti, "next_sti": t.next_sti}));
            } else if let Some(c) = op.get("snap").and_then(|v| v.as_u64()) {
                let (ti, ii) = t.snapshot_info();
                let mut fresh = TimerContext::new(false, 0, 0);
                fresh.apply_snapshot_info(&ti, &ii, c);
                t = fresh;
                out.push(json!({"next_mti": t.next_mti, "next_sti": t.next_sti, "enabled": t.enabled,
                                "mti_period": t.mti_period, "sti_period": t.sti_period}));
            } else if let Some(v) = op.get("set_isr").and_then(|v| v.as_u64()) {
                mem.write_internal_byte(0xFC, v as u8);
                out.push(json!({}));
            }
        }
    }
    json!({"out": out})
}

pub fn hex(b: &[u8]) -> String {
    b.iter().map(|x| format!("{x:02x}")).collect()
}

pub fn unhex(s: &str) -> Vec<u8> {
    (0..s.len() / 2).map(|i| u8::from_str_radix(&s[2 * i..2 * i + 2], 16).unwrap_or(0)).collect()
}

pub fn u(v: &Value, i: usize) -> u64 {
    v.as_array().and_then(|a| a.get(i)).and_then(|x| x.as_u64()).unwrap_or(0)
}

/// Apply a memory configuration object to a MemoryImage.
pub fn configure_memory(mem: &mut sc62015_core::memory::MemoryImage, cfg: &Value) {
    if let Some(b) = cfg.get("mirror").and_then(|v| v.as_bool()) {
        mem.set_internal_ram_mirror(b);
    }
    if let Some(Value::Array(r)) = cfg.get("readonly") {
        mem.set_readonly_ranges(r.iter().map(|p| (u(p, 0) as u32, u(p, 1) as u32)).collect());
    }
    if cfg.get("pce500_map").and_then(|v| v.as_bool()).unwrap_or(false) {
        sc62015_core::pce500::configure_pce500_memory_map(mem);
    }
    if let Some(n) = cfg.get("card").and_then(|v| v.as_u64()) {
        if n == 0 {
            mem.set_memory_card_slot_present(false);
        } else {
            let data: Vec<u8> = (0..n as usize).map(|i| (i as u8) ^ 0x5A).collect();
            let _ = mem.load_memory_card(&data);
            if cfg.get("card_removed").and_then(|v| v.as_bool()).unwrap_or(false) {
                mem.set_memory_card_slot_present(false);      // a loaded card taken out again
            }
        }
    }
    if let Some(Value::Array(r)) = cfg.get("ram_overlays") {
        for (i, p) in r.iter().enumerate() {
            mem.add_ram_overlay(u(p, 0) as u32, u(p, 1) as usize, &format!("ramov{i}"));
        }
    }
    if let Some(Value::Array(r)) = cfg.get("rom_overlays") {
        for (i, p) in r.iter().enumerate() {
            let data: Vec<u8> = (0..u(p, 1) as usize).map(|k| (k as u8).wrapping_mul(7) ^ 0xC3).collect();
            mem.add_rom_overlay(u(p, 0) as u32, &data, &format!("romov{i}"));
        }
    }
    if let Some(Value::Array(r)) = cfg.get("taps") {
        // passive descriptor overlays (no data, no handlers): they decline every access, which must then fall through
        for (i, p) in r.iter().enumerate() {
            let start = u(p, 0) as u32;
            mem.add_overlay(sc62015_core::memory::MemoryOverlay {
                start,
                end: start + (u(p, 1) as u32).max(1) - 1,
                name: format!("atap{i}"),
                data: None,
                read_only: false,
                read_handler: None,
                write_handler: None,
                perfetto_thread: None,
            });
        }
    }
    if let Some(Value::Array(r)) = cfg.get("ext") {
        for p in r {
            mem.write_external_byte(u(p, 0) as u32, u(p, 1) as u8);
        }
    }
}

/// mem: script on a bare MemoryImage. ops: {"st":[addr,bits,val]} {"ld":[addr,bits]} {"rb":addr}
pub fn cmd_mem(req: &Value) -> Value {
    use sc62015_core::memory::MemoryImage;
    let mut mem = MemoryImage::new();
    if let Some(cfg) = req.get("cfg") {
        configure_memory(&mut mem, cfg);
    }
    let mut out: Vec<Value> = Vec::new();
    if let Some(Value::Array(ops)) = req.get("script") {
        for op in ops {
            if let Some(a) = op.get("st") {
                let r = mem.store(u(a, 0) as u32, u(a, 1) as u8, u(a, 2) as u32);
                out.push(json!({"ok": r.is_some()}));
            } else if let Some(a) = op.get("ld") {
                out.push(json!({"v": mem.load(u(a, 0) as u32, u(a, 1) as u8)}));
            } else if let Some(a) = op.get("rb").and_then(|v| v.as_u64()) {
                out.push(json!({"v": mem.read_byte(a as u32)}));
            } else if let Some(Value::Array(addrs)) = op.get("probe") {
                let vals: Vec<Value> = addrs.iter().map(|a| json!(mem.load(a.as_u64().unwrap_or(0) as u32, 8))).collect();
                out.push(json!({"probe": vals}));
            }
        }
    }
    json!({"out": out})
}

/// sysimage: a CoreRuntime whose memory is set up by one of the PC-E500 loader entry points, then a store/load script.
/// {"loader": "system_image"|"rom_window", "len": n, "script": [{"st":[a,bits,v]}, {"ld":[a,bits]}]}
pub fn cmd_sysimage(req: &Value) -> Value {
    use sc62015_core::CoreRuntime;
    let mut rt = CoreRuntime::new();
    let len = req.get("len").and_then(|v| v.as_u64()).unwrap_or(0x100000) as usize;
    let image: Vec<u8> = (0..len).map(|i| ((i * 13) ^ (i >> 8) ^ 0x3C) as u8).collect();
    let loader = req.get("loader").and_then(|v| v.as_str()).unwrap_or("system_image");
    let r = match loader {
        "rom_window" => sc62015_core::pce500::load_pce500_rom_window(&mut rt, &image),
        _ => sc62015_core::pce500::load_pce500_system_image(&mut rt, &image),
    };
    let mut out: Vec<Value> = Vec::new();
    if let Err(e) = r {
        return json!({"err": format!("{e}")});
    }
    if let Some(Value::Array(ops)) = req.get("script") {
        for op in ops {
            if let Some(a) = op.get("st") {
                let r = rt.memory.store(u(a, 0) as u32, u(a, 1) as u8, u(a, 2) as u32);
                out.push(json!({"ok": r.is_some()}));
            } else if let Some(a) = op.get("ld") {
                out.push(json!({"v": rt.memory.load(u(a, 0) as u32, u(a, 1) as u8)}));
            }
        }
    }
    json!({"out": out})
}

fn kbd_obs(kb: &sc62015_core::keyboard::KeyboardMatrix, mem: &sc62015_core::memory::MemoryImage) -> Value {
    let snap = kb.snapshot_state();
    json!({
        "kol": snap.kol, "koh": snap.koh, "kil_latch": snap.kil_latch,
        "kil": kb.compute_kil(false), "kil_pending": kb.compute_kil(true),
        "fifo": kb.fifo_snapshot(), "fifo_len": kb.fifo_len(),
        "isr": mem.read_internal_byte(0xFC).unwrap_or(0),
        "mem_kil": mem.read_internal_byte(0xF2).unwrap_or(0),
        "active_columns": snap.active_columns,
        "key_states": serde_json::to_value(&snap.key_states).unwrap_or(Value::Null),
        "irq_count": snap.irq_count,
    })
}

/// kbd: script on KeyboardMatrix + MemoryImage.
pub fn cmd_kbd(req: &Value) -> Value {
    use sc62015_core::keyboard::KeyboardMatrix;
    use sc62015_core::memory::MemoryImage;
    let mut mem = MemoryImage::new();
    let mut kb = KeyboardMatrix::new();
    if let Some(cfg) = req.get("cfg") {
        if let Some(p) = cfg.get("press").and_then(|v| v.as_u64()) {
            kb.set_press_threshold(p as u8);
        }
        if let Some(b) = cfg.get("active_high").and_then(|v| v.as_bool()) {
            kb.set_columns_active_high(b);
        }
        if let Some(b) = cfg.get("repeat").and_then(|v| v.as_bool()) {
            kb.set_repeat_enabled(b);
        }
        if cfg.get("mirror").and_then(|v| v.as_bool()) == Some(false) {
            kb.disable_fifo_mirroring();
        }
    }
    let mut out: Vec<Value> = Vec::new();
    if let Some(Value::Array(ops)) = req.get("script") {
        for op in ops {
            if let Some(c) = op.get("press").and_then(|v| v.as_u64()) {
                kb.press_matrix_code(c as u8, &mut mem);
                out.push(json!({}));
            } else if let Some(c) = op.get("release").and_then(|v| v.as_u64()) {
                kb.release_matrix_code(c as u8, &mut mem);
                out.push(json!({}));
            } else if let Some(a) = op.get("w") {
                let h = kb.handle_write(u(a, 0) as u32, u(a, 1) as u8, &mut mem);
                out.push(json!({"handled": h}));
            } else if let Some(o) = op.get("r").and_then(|v| v.as_u64()) {
                out.push(json!({"v": kb.handle_read(o as u32, &mut mem)}));
            } else if let Some(c) = op.get("tick") {
                let before = kb.fifo_snapshot();
                let n = kb.scan_tick(&mut mem, c.as_bool().unwrap_or(true));
                out.push(json!({"events": n, "fifo_before": before, "fifo": kb.fifo_snapshot()}));
            } else if let Some(a) = op.get("inject") {
                let n = kb.inject_matrix_event(u(a, 0) as u8, u(a, 1) != 0, &mut mem, u(a, 2) != 0);
                out.push(json!({"events": n, "fifo": kb.fifo_snapshot()}));
            } else if let Some(b) = op.get("fifo2mem").and_then(|v| v.as_bool()) {
                kb.write_fifo_to_memory(&mut mem, b);
                out.push(json!({"isr": mem.read_internal_byte(0xFC).unwrap_or(0)}));
            } else if op.get("consume").is_some() {
                kb.consume_pending_events();
                out.push(json!({}));
            } else if op.get("snap").is_some() {
                let s = kb.snapshot_state();
                let mut fresh = KeyboardMatrix::new();
                fresh.load_snapshot_state(&s);
                kb = fresh;
                out.push(json!({}));
            } else if let Some(v) = op.get("set_isr").and_then(|v| v.as_u64()) {
                mem.write_internal_byte(0xFC, v as u8);
                out.push(json!({}));
            } else if op.get("obs").is_some() {
                out.push(kbd_obs(&kb, &mem));
            }
        }
    }
    json!({"out": out})
}

pub fn lcd_obs(lcd: &sc62015_core::lcd::LcdController, disp: bool) -> Value {
    let (meta, vram) = lcd.export_snapshot();
    let mut o = json!({"meta": meta, "vram": hex(&vram)});
    if disp {
        let buf = lcd.display_buffer();
        let rows: Vec<String> = buf.iter().map(|r| r.iter().map(|p| if *p != 0 { '1' } else { '0' }).collect()).collect();
        o["display"] = json!(rows);
    }
    o
}

/// lcd: script on LcdController. ops: {"w":[addr,val]} {"r":addr} {"obs":disp?} {"snap":1}
pub fn cmd_lcd(req: &Value) -> Value {
    use sc62015_core::lcd::LcdController;
    let mut lcd = LcdController::new();
    let mut out: Vec<Value> = Vec::new();
    if let Some(Value::Array(ops)) = req.get("script") {
        for op in ops {
            if let Some(a) = op.get("w") {
                lcd.write(u(a, 0) as u32, u(a, 1) as u8);
                out.push(json!({"handles": lcd.handles(u(a, 0) as u32)}));
            } else if let Some(a) = op.get("r").and_then(|v| v.as_u64()) {
                out.push(json!({"v": lcd.read(a as u32), "handles": lcd.handles(a as u32)}));
            } else if let Some(d) = op.get("obs") {
                out.push(lcd_obs(&lcd, d.as_bool().unwrap_or(false)));
            } else if op.get("reset").is_some() {
                lcd.reset();
                out.push(json!({}));
            } else if op.get("snap").is_some() {
                let (meta, vram) = lcd.export_snapshot();
                let mut fresh = LcdController::new();
                let r = fresh.load_snapshot(&meta, &vram);
                lcd = fresh;
                out.push(json!({"err": r.err()}));
            } else if let Some(h) = op.get("setvram").and_then(|v| v.as_str()) {
                let (meta, _) = lcd.export_snapshot();
                let r = lcd.load_snapshot(&meta, &unhex(h));
                out.push(json!({"err": r.err()}));
            }
        }
    }
    json!({"out": out})
}
