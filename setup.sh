#!/bin/bash
# Run once after a fresh restore (offline): build everything the checks need from files on disk.
set -e
HERE="$(cd "$(dirname "$0")" && pwd)"
cd "$HERE"
mkdir -p .build evidence replays
if [ -d rust/harness ]; then
  ./rust/build.sh
fi
echo "setup ok"
